//! Byte-level input enumeration (C06, C15): allocation recording, input generators, and the
//! subprocess worker that feeds client-to-server channels of a real server App.

use std::{
    alloc::{GlobalAlloc, Layout, System},
    cell::Cell,
    io::Write,
};

// ------------------------------------------------------------------------------------------
// Allocation recorder
// ------------------------------------------------------------------------------------------

thread_local! {
    static ARMED: Cell<bool> = const { Cell::new(false) };
    static MAX_REQ: Cell<usize> = const { Cell::new(0) };
}

pub struct Recorder;

unsafe impl GlobalAlloc for Recorder {
    unsafe fn alloc(&self, layout: Layout) -> *mut u8 {
        note(layout.size());
        unsafe { System.alloc(layout) }
    }
    unsafe fn dealloc(&self, ptr: *mut u8, layout: Layout) {
        unsafe { System.dealloc(ptr, layout) }
    }
    unsafe fn alloc_zeroed(&self, layout: Layout) -> *mut u8 {
        note(layout.size());
        unsafe { System.alloc_zeroed(layout) }
    }
    unsafe fn realloc(&self, ptr: *mut u8, layout: Layout, new_size: usize) -> *mut u8 {
        note(new_size);
        unsafe { System.realloc(ptr, layout, new_size) }
    }
}

#[inline]
fn note(size: usize) {
    let _ = ARMED.try_with(|a| {
        if a.get() {
            let _ = MAX_REQ.try_with(|m| {
                if size > m.get() {
                    m.set(size);
                }
            });
        }
    });
}

/// Runs `f` and returns the largest single allocation request made on this thread meanwhile.
pub fn record_max_alloc<R>(f: impl FnOnce() -> R) -> (R, usize) {
    MAX_REQ.with(|m| m.set(0));
    ARMED.with(|a| a.set(true));
    let r = f();
    ARMED.with(|a| a.set(false));
    (r, MAX_REQ.with(|m| m.get()))
}

/// What the property calls "out of proportion to the message".
pub fn alloc_bound(message_len: usize) -> usize {
    64 * 1024 + 64 * message_len
}

// ------------------------------------------------------------------------------------------
// Input generators
// ------------------------------------------------------------------------------------------

/// All byte strings of length `0..=max_len`, numbered; `nth` decodes a number into a string.
pub fn count_short(max_len: usize) -> u64 {
    (0..=max_len).map(|l| 256u64.pow(l as u32)).sum()
}

pub fn nth_short(mut n: u64, max_len: usize) -> Vec<u8> {
    for l in 0..=max_len {
        let c = 256u64.pow(l as u32);
        if n < c {
            return (0..l).map(|i| ((n >> (8 * i)) & 0xff) as u8).collect();
        }
        n -= c;
    }
    unreachable!()
}

/// Encodings of boundary values of postcard varints, including malformed ones.
pub fn varint_boundaries() -> Vec<Vec<u8>> {
    fn enc(mut v: u64) -> Vec<u8> {
        let mut out = Vec::new();
        loop {
            let b = (v & 0x7f) as u8;
            v >>= 7;
            if v == 0 {
                out.push(b);
                return out;
            }
            out.push(b | 0x80);
        }
    }
    let mut v: Vec<Vec<u8>> = [
        0u64,
        1,
        2,
        3,
        127,
        128,
        (1 << 14) - 1,
        1 << 14,
        (1 << 21) - 1,
        1 << 21,
        (1 << 28) - 1,
        1 << 28,
        (1 << 31) - 1,
        1 << 31,
        (1 << 32) - 2,
        (1 << 32) - 1,
        1 << 32,
        (1 << 33) - 1,
        (1 << 33) + 1,
        1 << 63,
        u64::MAX - 1,
        u64::MAX,
    ]
    .iter()
    .map(|&x| enc(x))
    .collect();
    v.push(vec![0x80, 0x00]); // over-long zero
    v.push(vec![0x81, 0x80, 0x00]); // over-long one
    v.push(vec![0xff; 10]); // truncated 10-byte varint (continuation never ends)
    v.push(vec![0xff, 0xff, 0xff, 0xff, 0xff, 0xff, 0xff, 0xff, 0xff, 0xff, 0x01]); // 11 bytes
    v.push(vec![0xff, 0xff, 0xff, 0xff, 0xff, 0xff, 0xff, 0xff, 0xff, 0x7f]); // too large for u64
    v
}

/// Messages made of up to `fields` varint-boundary fields followed by one of a few tails,
/// plus every truncation of each.
pub fn grammar_inputs(fields: usize) -> Vec<Vec<u8>> {
    let b = varint_boundaries();
    let tails: Vec<Vec<u8>> = vec![vec![], vec![0], vec![0xE7, 11, 1, 0x7E], vec![0xff; 6]];
    let mut out: std::collections::BTreeSet<Vec<u8>> = Default::default();
    let mut stack: Vec<Vec<u8>> = vec![vec![]];
    for _ in 0..fields {
        let mut next = Vec::new();
        for p in &stack {
            for f in &b {
                let mut m = p.clone();
                m.extend_from_slice(f);
                next.push(m);
            }
        }
        for m in &next {
            for t in &tails {
                let mut full = m.clone();
                full.extend_from_slice(t);
                for cut in 0..=full.len() {
                    out.insert(full[..cut].to_vec());
                }
            }
        }
        stack = next;
    }
    out.into_iter().collect()
}

// ------------------------------------------------------------------------------------------
// Journal (so that the parent can name the input that killed a worker)
// ------------------------------------------------------------------------------------------

pub struct Journal {
    file: std::fs::File,
}

impl Journal {
    pub fn create(path: &str) -> Self {
        Self { file: std::fs::OpenOptions::new().create(true).write(true).truncate(true).open(path).expect("journal") }
    }
    pub fn record(&mut self, input: &[u8]) {
        use std::os::unix::fs::FileExt;
        let mut buf = [0u8; 64];
        let n = input.len().min(62);
        buf[0] = n as u8;
        buf[1..1 + n].copy_from_slice(&input[..n]);
        let _ = self.file.write_at(&buf, 0);
    }
    pub fn read(path: &str) -> Option<Vec<u8>> {
        let b = std::fs::read(path).ok()?;
        let n = *b.first()? as usize;
        b.get(1..1 + n).map(|s| s.to_vec())
    }
}

pub fn set_address_space_limit(bytes: u64) {
    let lim = libc::rlimit { rlim_cur: bytes, rlim_max: bytes };
    unsafe {
        libc::setrlimit(libc::RLIMIT_AS, &lim);
    }
}

pub fn hex(b: &[u8]) -> String {
    b.iter().map(|x| format!("{x:02x}")).collect::<Vec<_>>().join("")
}

pub fn unhex(s: &str) -> Vec<u8> {
    (0..s.len() / 2).map(|i| u8::from_str_radix(&s[2 * i..2 * i + 2], 16).unwrap()).collect()
}

pub fn flush_stdout() {
    let _ = std::io::stdout().flush();
}
