//! Real server and client `App`s, the harness-owned network between them, world operations,
//! per-tick server snapshots and client views. Everything here drives public API only.

use std::{
    cell::RefCell,
    collections::{BTreeMap, BTreeSet, VecDeque},
    hash::{Hash, Hasher},
    panic::{AssertUnwindSafe, catch_unwind},
    time::Duration,
};

use bevy::{prelude::*, time::TimeUpdateStrategy};
use bevy_replicon::{
    bytes::Bytes,
    client::{ServerUpdateTick, confirm_history::ConfirmHistory},
    prelude::*,
    server::server_tick::ServerTick,
    shared::{replication::track_mutate_messages::TrackAppExt, server_entity_map::ServerEntityMap},
};
use serde::{Deserialize, Serialize};

use crate::explore::Violation;

// ------------------------------------------------------------------------------------------
// Panic capture
// ------------------------------------------------------------------------------------------

thread_local! {
    static LAST_PANIC: RefCell<Option<(String, String)>> = const { RefCell::new(None) };
}

pub fn install_panic_hook() {
    std::panic::set_hook(Box::new(|info| {
        let loc = info
            .location()
            .map(|l| format!("{}:{}", l.file(), l.line()))
            .unwrap_or_default();
        let msg = if let Some(s) = info.payload().downcast_ref::<&str>() {
            s.to_string()
        } else if let Some(s) = info.payload().downcast_ref::<String>() {
            s.clone()
        } else {
            "<panic>".to_string()
        };
        LAST_PANIC.with(|p| {
            let mut p = p.borrow_mut();
            // Keep the first panic of a chain (Bevy re-panics with the system name).
            if p.is_none() {
                *p = Some((msg, loc));
            }
        });
    }));
}

/// Runs `f` (an `App::update`) and converts a panic raised in library code into `Err`.
/// A panic raised by harness code is re-raised: it is a machinery error, not a verdict.
pub fn guarded<R>(f: impl FnOnce() -> R) -> Result<R, (String, String)> {
    LAST_PANIC.with(|p| *p.borrow_mut() = None);
    match catch_unwind(AssertUnwindSafe(f)) {
        Ok(r) => Ok(r),
        Err(e) => {
            let mut info = LAST_PANIC
                .with(|p| p.borrow_mut().take())
                .unwrap_or_else(|| ("<unknown panic>".into(), String::new()));
            // Bevy appends a backtrace to some messages; the first line identifies the panic.
            if let Some(first) = info.0.lines().next() {
                info.0 = first.chars().take(400).collect();
            }
            if info.1.contains("/verif/mc/") || info.1.starts_with("src/") {
                std::panic::resume_unwind(e);
            }
            Err(info)
        }
    }
}

// ------------------------------------------------------------------------------------------
// Component vocabulary
// ------------------------------------------------------------------------------------------

/// Entity slot reserved for the structural probe spawned at the end of closure (C03).
pub const PROBE_SLOT: u8 = 5;
pub const MAGIC: u8 = 0xA5;
pub const MAGIC_END: u8 = 0x5A;
pub type Val = [u8; 5];

pub fn val(etag: u8, ctag: u8, ver: u8) -> Val {
    [MAGIC, etag, ctag, ver, MAGIC_END]
}

pub const TA: u8 = 1;
pub const TB: u8 = 2;
pub const TP: u8 = 3;
pub const TO: u8 = 4;
pub const TR: u8 = 5;
pub const TBIG: u8 = 6;
pub const TCHILD: u8 = 7;

pub fn ctag_name(t: u8) -> &'static str {
    match t {
        TA => "A",
        TB => "B",
        TP => "P",
        TO => "O",
        TR => "R",
        TBIG => "Big",
        TCHILD => "ChildOf",
        _ => "?",
    }
}

#[derive(Component, Serialize, Deserialize, Clone, PartialEq, Debug)]
pub struct A(pub Val);
/// (sparse-set storage: every cell with `B` mixes the two storage kinds)
#[derive(Component, Serialize, Deserialize, Clone, PartialEq, Debug)]
#[component(storage = "SparseSet")]
pub struct B(pub Val);
/// Replicated with `SendRate::Periodic(2)`.
#[derive(Component, Serialize, Deserialize, Clone, PartialEq, Debug)]
pub struct P(pub Val);
/// Replicated with `SendRate::Once`.
#[derive(Component, Serialize, Deserialize, Clone, PartialEq, Debug)]
pub struct O(pub Val);
/// Mapped reference to another replicated entity.
#[derive(Component, Serialize, Deserialize, Clone, PartialEq, Debug)]
pub struct R(#[entities] pub Entity, pub Val);
/// Sized payload: `[MAGIC, etag, TBIG, ver, fill.., MAGIC_END]`.
#[derive(Component, Serialize, Deserialize, Clone, PartialEq, Debug)]
pub struct Big(pub Vec<u8>);
/// Not replicated at all (no rule).
#[derive(Component, Clone, PartialEq, Debug)]
pub struct NotReplicated(pub u8);

pub fn big_val(etag: u8, ver: u8, len: usize) -> Vec<u8> {
    let mut v = vec![0x11u8; len.max(5)];
    v[0] = MAGIC;
    v[1] = etag;
    v[2] = TBIG;
    v[3] = ver;
    let n = v.len();
    v[n - 1] = MAGIC_END;
    v
}

/// Value of a component in a snapshot / view, comparable between server and client.
#[derive(Clone, PartialEq, Eq, Debug, Hash, PartialOrd, Ord, Serialize)]
pub enum CV {
    Bytes(Vec<u8>),
    /// Reference to an entity expressed in *server* entity bits (`None`: not resolvable).
    Ref(Option<u64>, Vec<u8>),
}

impl CV {
    pub fn show(&self) -> String {
        match self {
            CV::Bytes(b) if b.len() == 5 => format!("v{}", b[3]),
            CV::Bytes(b) => format!("big(v{},len{})", b.get(3).copied().unwrap_or(0), b.len()),
            CV::Ref(t, b) => format!(
                "->{}{}",
                t.map(|t| fmt_bits(t)).unwrap_or_else(|| "?".into()),
                if b.len() == 5 {
                    format!(" v{}", b[3])
                } else {
                    String::new()
                }
            ),
        }
    }
}

pub fn fmt_bits(b: u64) -> String {
    let e = Entity::from_bits(b);
    format!("{}v{}", e.index(), e.generation())
}

pub type Comps = BTreeMap<u8, CV>;
/// Replicated server state: server entity bits -> components.
pub type Snap = BTreeMap<u64, Comps>;

pub fn show_comps(c: &Comps) -> String {
    let parts: Vec<String> = c
        .iter()
        .map(|(t, v)| format!("{}={}", ctag_name(*t), v.show()))
        .collect();
    format!("{{{}}}", parts.join(","))
}

pub fn show_snap(s: &Snap) -> String {
    let parts: Vec<String> = s
        .iter()
        .map(|(e, c)| format!("{}:{}", fmt_bits(*e), show_comps(c)))
        .collect();
    format!("[{}]", parts.join(" "))
}

fn read_comps(e: EntityRef, back: &dyn Fn(Entity) -> Option<u64>) -> Comps {
    let mut c = Comps::new();
    if let Some(x) = e.get::<A>() {
        c.insert(TA, CV::Bytes(x.0.to_vec()));
    }
    if let Some(x) = e.get::<B>() {
        c.insert(TB, CV::Bytes(x.0.to_vec()));
    }
    if let Some(x) = e.get::<P>() {
        c.insert(TP, CV::Bytes(x.0.to_vec()));
    }
    if let Some(x) = e.get::<O>() {
        c.insert(TO, CV::Bytes(x.0.to_vec()));
    }
    if let Some(x) = e.get::<R>() {
        c.insert(TR, CV::Ref(back(x.0), x.1.to_vec()));
    }
    if let Some(x) = e.get::<Big>() {
        c.insert(TBIG, CV::Bytes(x.0.clone()));
    }
    if let Some(x) = e.get::<ChildOf>() {
        c.insert(TCHILD, CV::Ref(back(x.parent()), vec![]));
    }
    c
}

// ------------------------------------------------------------------------------------------
// Configuration
// ------------------------------------------------------------------------------------------

#[derive(Clone, Copy, Debug, PartialEq, Eq, Serialize)]
pub enum Vis {
    All,
    Blacklist,
    Whitelist,
}

#[derive(Clone, Copy, Debug, PartialEq, Eq, Serialize)]
pub enum TickWiring {
    Manual,
    EveryFrame,
    MaxTickRate(u16),
}

#[derive(Clone, Copy, Debug, PartialEq, Eq, Serialize)]
pub enum Auth {
    None,
    ProtocolCheck,
    Custom,
}

#[derive(Clone, Debug, Serialize)]
pub struct Cfg {
    pub vis: Vis,
    pub tick: TickWiring,
    pub auth: Auth,
    pub dt_ms: u64,
    pub with_p: bool,
    pub with_o: bool,
    pub with_r: bool,
    pub with_big: bool,
    pub with_child: bool,
    pub sync_rel: bool,
    pub track: bool,
    pub timeout_ms: u64,
    /// The server's virtual clock is paused for this many frames before anything happens (the
    /// real clock keeps running).
    pub paused_frames: u32,
    /// Resolve the `k`-th pair of library systems that a schedule leaves unordered although
    /// their data access conflicts: (PostUpdate?, k, first-before-second?).
    pub order_choice: Option<(bool, usize, bool)>,
    /// `max_size` of every client connection.
    pub clients: Vec<usize>,
    /// Server tick offset applied before anything connects (wrap-around cells).
    pub tick_offset: u32,
    /// Register the event vocabulary of `events.rs`.
    pub events: bool,
    /// Clients whose app is built with one extra replication rule (a different protocol).
    pub mismatch: Vec<usize>,
    /// With `hist`: only client entities with an even index get the markers; the others are
    /// plain entities next to marked ones.
    pub hist_mixed: bool,
    /// Replicate `F` with a deserialization function that rejects poisoned values.
    pub with_f: bool,
    /// Register `OwnedBy` as a second synchronized relationship.
    pub with_owner: bool,
    /// The client's connection status and its incoming messages are applied by a system in
    /// `ClientSet::ReceivePackets`, the way a messaging backend does it (the connection and the
    /// first messages arrive inside the same client frame), instead of between frames.
    pub backend_style: bool,
    /// Register a command marker that asks for history (`need_history`) and custom write
    /// functions for `A`; every replicated entity on a client carries the marker.
    pub hist: bool,
}

impl Default for Cfg {
    fn default() -> Self {
        Self {
            vis: Vis::All,
            tick: TickWiring::Manual,
            auth: Auth::None,
            dt_ms: 10,
            with_p: false,
            with_o: false,
            with_r: false,
            with_big: false,
            with_child: false,
            sync_rel: false,
            track: false,
            timeout_ms: 10_000,
            paused_frames: 0,
            order_choice: None,
            clients: vec![1200],
            tick_offset: 0,
            events: false,
            mismatch: vec![],
            hist: false,
            with_owner: false,
            with_f: false,
            hist_mixed: false,
            backend_style: false,
        }
    }
}

/// Connections the (simulated) transport finds closed in `ServerSet::ReceivePackets` of the next frame.
#[derive(Resource, Default)]
pub struct DropInReceive(pub Vec<Entity>);

/// Connections the (simulated) transport closes after `ServerSet::Send` of the current frame.
#[derive(Resource, Default)]
pub struct DropAfterSend(pub Vec<Entity>);

/// What the transport has for the client app's next frame (see `Cfg::backend_style`).
#[derive(Resource, Default)]
pub struct Inbox {
    pub connect: bool,
    pub msgs: Vec<(usize, Bytes)>,
}

fn backend_receive(mut inbox: ResMut<Inbox>, mut client: ResMut<RepliconClient>) {
    if std::mem::take(&mut inbox.connect) {
        client.set_status(RepliconClientStatus::Connected);
    }
    for (ch, bytes) in inbox.msgs.drain(..) {
        client.insert_received(ch, bytes);
    }
}

/// A component whose deserialization function rejects "poisoned" values (last payload byte is
/// not the end marker). It is invisible to snapshots, views and wire scans: it only exercises
/// the client's error paths.
#[derive(Component, Serialize, Deserialize, Clone, PartialEq, Debug)]
pub struct F(pub Val);

fn deserialize_f(
    ctx: &mut bevy_replicon::shared::replication::replication_registry::ctx::WriteCtx,
    message: &mut Bytes,
) -> bevy::ecs::error::Result<F> {
    let f: F = bevy_replicon::shared::replication::replication_registry::rule_fns::default_deserialize(ctx, message)?;
    if f.0[4] != MAGIC_END {
        return Err("poisoned value refused by the game's deserialization function".into());
    }
    Ok(f)
}

/// A second relationship type (not replicated itself) registered for synchronized replication.
#[derive(Component)]
#[relationship(relationship_target = Owning)]
pub struct OwnedBy(pub Entity);
#[derive(Component)]
#[relationship_target(relationship = OwnedBy)]
pub struct Owning(Vec<Entity>);

/// Marker of the history-keeping write path (see `Cfg::hist`).
#[derive(Component)]
pub struct HistMarker;
/// A second marker on the same entities, registered without `need_history`.
#[derive(Component)]
pub struct PlainMarker;

/// Every value of `A` received for the entity, with the tick of its message.
#[derive(Component, Default)]
pub struct AHist(pub Vec<(u32, Val)>);

/// Write function under `HistMarker`: records every received value; only a value that is not
/// older than the entity's last confirmed tick becomes the current one.
fn write_hist_a(
    ctx: &mut bevy_replicon::shared::replication::replication_registry::ctx::WriteCtx,
    rule_fns: &bevy_replicon::shared::replication::replication_registry::rule_fns::RuleFns<A>,
    entity: &mut bevy_replicon::shared::replication::deferred_entity::DeferredEntity,
    message: &mut Bytes,
) -> bevy::ecs::error::Result<()> {
    if !entity.contains::<HistMarker>() {
        // the library selects a marker's functions only for entities that carry the marker
        return Err("the write function of HistMarker was called for an entity without the marker".into());
    }
    let value: A = rule_fns.deserialize(ctx, message)?;
    let newest = entity
        .get::<bevy_replicon::client::confirm_history::ConfirmHistory>()
        .is_none_or(|h| h.last_tick() <= ctx.message_tick);
    let rec = (ctx.message_tick.get(), value.0);
    if let Some(mut h) = entity.get_mut::<AHist>() {
        h.0.push(rec);
    } else {
        entity.insert(AHist(vec![rec]));
    }
    if newest {
        if let Some(mut a) = entity.get_mut::<A>() {
            *a = value;
        } else {
            entity.insert(value);
        }
    }
    Ok(())
}

/// Ticks announced by `MutateTickReceived`, in order of observation.
/// `a` is older than `b` in wrap-around tick arithmetic (distances below 2^31).
pub fn tick_older(a: u32, b: u32) -> bool {
    (a.wrapping_sub(b) as i32) < 0
}

#[derive(Resource, Default)]
pub struct MutateTicksSeen(pub Vec<u32>);

fn record_mutate_ticks(
    mut r: EventReader<bevy_replicon::client::server_mutate_ticks::MutateTickReceived>,
    mut seen: ResMut<MutateTicksSeen>,
) {
    for e in r.read() {
        seen.0.push(e.tick.get());
    }
}

pub fn build_app(cfg: &Cfg) -> App {
    build_app_with(cfg, false)
}

/// Not part of the server's protocol.
#[derive(Component, Serialize, Deserialize, Clone, PartialEq, Debug)]
pub struct Extra(pub u8);

pub fn build_app_with(cfg: &Cfg, extra_rule: bool) -> App {
    let mut app = App::new();
    let tick_policy = match cfg.tick {
        TickWiring::Manual => TickPolicy::Manual,
        TickWiring::EveryFrame => TickPolicy::EveryFrame,
        TickWiring::MaxTickRate(hz) => TickPolicy::MaxTickRate(hz),
    };
    let visibility_policy = match cfg.vis {
        Vis::All => VisibilityPolicy::All,
        Vis::Blacklist => VisibilityPolicy::Blacklist,
        Vis::Whitelist => VisibilityPolicy::Whitelist,
    };
    let auth_method = match cfg.auth {
        Auth::None => AuthMethod::None,
        Auth::ProtocolCheck => AuthMethod::ProtocolCheck,
        Auth::Custom => AuthMethod::Custom,
    };
    app.add_plugins((
        bevy::time::TimePlugin,
        RepliconPlugins
            .set(ServerPlugin {
                tick_policy,
                visibility_policy,
                mutations_timeout: Duration::from_millis(cfg.timeout_ms),
            })
            .set(RepliconSharedPlugin { auth_method }),
    ))
    .insert_resource(TimeUpdateStrategy::ManualDuration(Duration::from_millis(
        cfg.dt_ms,
    )));
    app.replicate::<A>().replicate::<B>();
    if cfg.with_p {
        app.replicate_periodic::<P>(2);
    }
    if cfg.with_o {
        app.replicate_once::<O>();
    }
    if cfg.with_r {
        app.replicate::<R>();
    }
    if cfg.with_big {
        app.replicate::<Big>();
    }
    if cfg.with_child {
        app.replicate::<ChildOf>();
        if cfg.sync_rel {
            app.sync_related_entities::<ChildOf>();
        }
    }
    if cfg.with_owner {
        app.sync_related_entities::<OwnedBy>();
    }
    if cfg.with_f {
        use bevy_replicon::shared::replication::replication_registry::rule_fns::{RuleFns, default_serialize};
        app.replicate_with(RuleFns::new(default_serialize::<F>, deserialize_f));
    }
    if cfg.track {
        app.track_mutate_messages();
        app.init_resource::<MutateTicksSeen>()
            .add_systems(Update, record_mutate_ticks);
    }
    if cfg.events {
        crate::events::register(&mut app);
    }
    if extra_rule {
        app.replicate::<Extra>();
    }
    // a transport that notices a closed connection while receiving: it despawns the connection
    // entity through `Commands` inside its receive set
    app.init_resource::<DropInReceive>().add_systems(
        PreUpdate,
        (|mut list: ResMut<DropInReceive>, mut commands: Commands| {
            for e in list.0.drain(..) {
                commands.entity(e).despawn();
            }
        })
        .in_set(ServerSet::ReceivePackets),
    );
    // a transport that closes a connection between the library's send systems and its own flush
    app.init_resource::<DropAfterSend>().add_systems(
        PostUpdate,
        (|mut list: ResMut<DropAfterSend>, mut commands: Commands| {
            for e in list.0.drain(..) {
                commands.entity(e).despawn();
            }
        })
        .after(ServerSet::Send)
        .before(ServerSet::SendPackets),
    );
    if cfg.backend_style {
        app.init_resource::<Inbox>()
            .add_systems(PreUpdate, backend_receive.in_set(ClientSet::ReceivePackets));
    }
    if cfg.hist {
        use bevy_replicon::shared::replication::{command_markers::MarkerConfig, replication_registry::command_fns};
        app.register_marker_with::<HistMarker>(MarkerConfig { need_history: true, ..Default::default() })
            .set_marker_fns::<HistMarker, A>(write_hist_a, command_fns::default_remove::<A>);
        // a second marker that does not ask for history, with (ordinary) functions for `B`
        app.register_marker::<PlainMarker>()
            .set_marker_fns::<PlainMarker, B>(command_fns::default_write::<B>, command_fns::default_remove::<B>);
        let mixed = cfg.hist_mixed;
        app.add_observer(move |t: Trigger<OnAdd, Replicated>, mut commands: Commands| {
            if !mixed || t.target().index() % 2 == 0 {
                commands.entity(t.target()).insert((HistMarker, PlainMarker));
            } else if t.target().index() % 4 == 1 {
                // only the marker that was registered later (after the older marker's functions)
                commands.entity(t.target()).insert(PlainMarker);
            }
        });
    }
    app.finish();
    app.cleanup();
    if let Some((post, k, dir)) = cfg.order_choice {
        force_order(&mut app, post, k, dir).expect("order choice was checked to be feasible");
    }
    app
}

/// The pairs of plain library systems (those with a type set of their own) of `PreUpdate` /
/// `PostUpdate` that have conflicting access and no ordering; after the call the `k`-th of
/// them is ordered as chosen. `Err` if that contradicts the orderings the library declares.
pub fn force_order(app: &mut App, post: bool, k: usize, first_before_second: bool) -> Result<String, String> {
    use bevy::ecs::schedule::{InternedSystemSet, ScheduleLabel};
    let label = if post { PostUpdate.intern() } else { PreUpdate.intern() };
    let world = app.world_mut();
    let mut schedule = world.resource_mut::<Schedules>().remove(label).expect("schedule exists");
    schedule.initialize(world).expect("schedule builds");
    let info: std::collections::HashMap<_, (String, Option<InternedSystemSet>)> = schedule
        .systems()
        .expect("schedule is initialized")
        .map(|(id, s)| (id, (s.name().to_string(), s.default_system_sets().into_iter().find(|t| t.system_type().is_some()))))
        .collect();
    // every pair of plain library systems; a pair that the declared orderings already decide
    // is recognized below by one of its two directions being infeasible (a cycle)
    let mut named: Vec<(String, InternedSystemSet)> = info
        .values()
        .filter_map(|(n, s)| Some((n.clone(), (*s)?)))
        .filter(|(n, _)| n.starts_with("bevy_replicon"))
        .collect();
    named.sort_by(|x, y| x.0.cmp(&y.0));
    let mut pairs: Vec<(String, String, InternedSystemSet, InternedSystemSet)> = Vec::new();
    for i in 0..named.len() {
        for j in i + 1..named.len() {
            if named[i].0 != named[j].0 {
                pairs.push((named[i].0.clone(), named[j].0.clone(), named[i].1, named[j].1));
            }
        }
    }
    pairs.sort_by(|x, y| (&x.0, &x.1).cmp(&(&y.0, &y.1)));
    pairs.dedup_by(|x, y| x.0 == y.0 && x.1 == y.1);
    let r = match pairs.get(k) {
        None => Err("no such pair".to_string()),
        Some((na, nb, sa, sb)) => {
            let short = |n: &str| n.trim_start_matches("bevy_replicon::").to_string();
            // (a system's own type set cannot be configured; an access-free system between
            // the two carries the ordering instead)
            fn between() {}
            if first_before_second {
                schedule.add_systems(between.after(*sa).before(*sb));
            } else {
                schedule.add_systems(between.after(*sb).before(*sa));
            }
            match schedule.initialize(world) {
                Ok(()) => Ok(if first_before_second { format!("{} before {}", short(na), short(nb)) } else { format!("{} before {}", short(nb), short(na)) }),
                Err(e) => Err(format!("{e:?}")),
            }
        }
    };
    world.resource_mut::<Schedules>().insert(schedule);
    r
}

/// Every pair of plain library systems of `PreUpdate` / `PostUpdate` whose order the declared
/// constraints leave open (both directions build), with both resolutions: (choice, description).
pub fn order_choices(cfg: &Cfg) -> Vec<((bool, usize, bool), String)> {
    let mut out = Vec::new();
    for post in [false, true] {
        for k in 0.. {
            let mut got = Vec::new();
            let mut end = false;
            for dir in [true, false] {
                let mut base = cfg.clone();
                base.order_choice = None;
                let mut app = build_app(&base);
                match force_order(&mut app, post, k, dir) {
                    Ok(desc) => got.push(((post, k, dir), desc)),
                    Err(e) if e == "no such pair" => end = true,
                    Err(_) => {}
                }
            }
            if end {
                break;
            }
            if got.len() == 2 {
                out.extend(got);
            }
        }
    }
    out
}

// ------------------------------------------------------------------------------------------
// Network
// ------------------------------------------------------------------------------------------

#[derive(Clone, Debug)]
pub struct Msg {
    pub id: u32,
    pub bytes: Bytes,
    /// Number of the frame (of the sender) that produced the message.
    pub frame: u32,
    /// Server tick after the sending frame (server -> client only).
    pub tick: u32,
}

/// What to take out of an in-flight queue.
#[derive(Clone, Debug, PartialEq, Eq)]
pub enum Sel {
    All,
    None,
    /// The first `k` messages (reliable ordered channels).
    Prefix(usize),
    /// The listed positions, in the listed order.
    Indices(Vec<usize>),
}

fn take(q: &mut VecDeque<Msg>, sel: &Sel) -> Vec<Msg> {
    match sel {
        Sel::All => q.drain(..).collect(),
        Sel::None => vec![],
        Sel::Prefix(k) => {
            let k = (*k).min(q.len());
            q.drain(..k).collect()
        }
        Sel::Indices(ix) => {
            let picked: Vec<Msg> = ix.iter().map(|&i| q[i].clone()).collect();
            let set: BTreeSet<usize> = ix.iter().copied().collect();
            let mut i = 0;
            q.retain(|_| {
                let keep = !set.contains(&i);
                i += 1;
                keep
            });
            picked
        }
    }
}

#[derive(Clone, Debug)]
pub struct WireRec {
    pub server_frame: u32,
    pub tick: u32,
    pub is_tick_frame: bool,
    pub client: usize,
    pub channel: usize,
    pub bytes: Bytes,
    pub id: u32,
}

pub struct ClientSide {
    pub app: App,
    /// The server's `ConnectedClient` entity of the current session.
    pub conn: Option<Entity>,
    pub max_size: usize,
    /// In flight server -> client, per server channel.
    pub s2c: Vec<VecDeque<Msg>>,
    /// In flight client -> server, per client channel.
    pub c2s: Vec<VecDeque<Msg>>,
    pub frames: u32,
    pub panicked: bool,
    /// Number of sessions started so far.
    pub session: u32,
}

// ------------------------------------------------------------------------------------------
// Wire model of mutate messages and acknowledgements (C10, C11, C12)
// ------------------------------------------------------------------------------------------

pub fn read_varint(b: &[u8], pos: &mut usize) -> Option<u64> {
    let mut v: u64 = 0;
    let mut shift = 0;
    loop {
        let byte = *b.get(*pos)?;
        *pos += 1;
        v |= ((byte & 0x7f) as u64) << shift;
        if byte & 0x80 == 0 {
            return Some(v);
        }
        shift += 7;
        if shift > 63 {
            return None;
        }
    }
}

/// All `(etag, ctag, ver)` payload markers in a message.
pub fn payloads_in(bytes: &[u8]) -> Vec<(u8, u8, u8)> {
    let mut v = Vec::new();
    for w in bytes.windows(4) {
        if w[0] == MAGIC && (1..=7).contains(&w[2]) && (1..=8).contains(&w[1]) {
            v.push((w[1], w[2], w[3]));
        }
    }
    v
}

#[derive(Clone, Debug)]
pub struct MutMsgInfo {
    pub client: usize,
    pub index: u16,
    pub tick: u32,
    pub update_tick: u32,
    pub count: Option<u64>,
    pub payloads: Vec<(u8, u8, u8)>,
    pub server_frame: u32,
    pub len: usize,
    pub id: u32,
}

#[derive(Default)]
pub struct AckModel {
    /// Registered at send, removed when its acknowledgement is processed.
    pub in_flight: BTreeMap<(usize, u16), MutMsgInfo>,
    /// Indices delivered to the server's mailbox, processed by its next frame.
    pub pending_acks: Vec<(usize, u16)>,
    /// (client, etag) -> newest tick of a message containing the entity whose ack was processed.
    pub acked_tick: BTreeMap<(usize, u8), u32>,
    pub all: Vec<MutMsgInfo>,
    /// Ids of mutate messages handed to each client so far: (client, message id).
    pub delivered: BTreeSet<(usize, u32)>,
    /// Set when a mutate message did not parse under the wire layout this harness knows
    /// (the layout is not part of any property): index-based oracles then stand down.
    pub format_unknown: bool,
    /// (client, index) of mutate messages handed to the client in its current session.
    pub delivered_idx: BTreeSet<(usize, u16)>,
    /// Acknowledgements a client produced for an index it was never handed in this session.
    pub spurious_acks: Vec<(usize, u16)>,
    /// Mutate messages (ids) handed to a client since its last frame.
    pub received_unacked: BTreeMap<usize, Vec<u32>>,
    /// Acknowledgement message (id of the client-to-server message) -> the mutate messages it
    /// answers. Acknowledgements are credited by identity, not by index: an index names a
    /// message only as long as the server does not hand it out again.
    pub ack_ids: BTreeMap<u32, Vec<u32>>,
    pub pending_ack_ids: Vec<(usize, u32)>,
}

pub fn parse_mutate(track: bool, client: usize, w: &WireRec) -> Option<MutMsgInfo> {
    let b = &w.bytes[..];
    let mut pos = 0;
    let update_tick = read_varint(b, &mut pos)? as u32;
    let tick = read_varint(b, &mut pos)? as u32;
    let count = if track { Some(read_varint(b, &mut pos)?) } else { None };
    let index = u16::from_le_bytes([*b.get(pos)?, *b.get(pos + 1)?]);
    pos += 2;
    Some(MutMsgInfo {
        client,
        index,
        tick,
        update_tick,
        count,
        payloads: payloads_in(&b[pos..]),
        server_frame: w.server_frame,
        len: b.len(),
        id: w.id,
    })
}

// ------------------------------------------------------------------------------------------
// World operations
// ------------------------------------------------------------------------------------------

#[derive(Clone, Copy, Debug, PartialEq, Eq, Hash, Serialize)]
pub enum Op {
    Nop,
    /// Spawn slot with a component set given as a bit mask over ctags (bit t = ctag t).
    Spawn(u8, u16),
    Despawn(u8),
    Unmark(u8),
    Mark(u8),
    /// Insert `Replicated` again on an entity that already carries it.
    ReMark(u8),
    Ins(u8, u8),
    /// `insert` of a component the entity already has (overwrites it; Bevy reports it as added).
    ReIns(u8, u8),
    Rm(u8, u8),
    Mut(u8, u8),
    /// `set_visibility(client, slot, visible)`.
    Vis(u8, u8, bool),
    /// Insert `R` on slot pointing at target slot.
    InsRef(u8, u8),
    /// Mutate the existing `R` of slot in place so that it points at another target slot.
    MutRef(u8, u8),
    SetParent(u8, u8),
    ClearParent(u8),
    /// Insert `F` with a value the client's deserialization function refuses.
    InsPoison(u8),
    /// Insert `F` with an acceptable value / mutate it to a refused one.
    InsF(u8),
    MutPoison(u8),
    /// The second relationship: `OwnedBy(owner)` on slot.
    SetOwner(u8, u8),
    ClearOwner(u8),
    /// Spawn slot with `mask` as a child of the parent slot: marker, components and `ChildOf`
    /// arrive in one bundle.
    SpawnChild(u8, u16, u8),
    /// Spawn slot with `mask` and, in the same instant, `R` pointing at target (the target may
    /// be spawned by the same op sequence later in the tick window).
    /// Big payload insert/mutate with a given length class.
    InsBig(u8, u16),
    MutBig(u8, u16),
    /// Pre-spawn an entity on client `c` and register the mapping for `slot` on the server.
    MapPre(u8, u8),
    /// Same, but the server entity starts without the replication marker (`Mark` comes later).
    MapPreUnmarked(u8, u8),
    /// Like `MapPre`, but the client's pre-spawned entity has exactly the same id (index and
    /// generation) as the server entity, if the client's allocator can still reach it.
    MapPreSameId(u8, u8),
    /// Like `MapPre`, but the client's pre-spawned entity already carries the replication marker
    /// (client and server share one spawn bundle).
    MapPreMarked(u8, u8),
    /// Client `c` allocates local entities until the next id its allocator hands out is the id
    /// (index and generation) of the server's entity in slot `s`: the next replica spawned on
    /// `c` then has the same bits as that unrelated server entity.
    AlignNextId(u8, u8),
    /// Like `MapPre`, but the server entity has A and B and the client's pre-spawned entity
    /// already carries a predicted copy of B.
    MapPrePredicted(u8, u8),
    /// Client `c` pre-spawns an entity for an *existing* server entity that is still hidden from
    /// it; the server registers the mapping (visibility is granted by a later operation).
    MapLate(u8, u8),
    /// Same as `MapPre`, but for a connected client that is not authorized yet: the game fills
    /// `ClientEntityMap` on the connection entity ahead of the authorization.
    MapPreEarly(u8, u8),
    /// Client `c` despawns its pre-spawned entity for `slot` before the mapping arrived.
    DespawnPre(u8, u8),
}

impl Op {
    pub fn show(&self) -> String {
        match *self {
            Op::Nop => "nop".into(),
            Op::Spawn(s, m) => format!(
                "spawn e{}{{{}}}",
                s + 1,
                (1..8u8)
                    .filter(|t| m & (1 << t) != 0)
                    .map(ctag_name)
                    .collect::<Vec<_>>()
                    .join(",")
            ),
            Op::SpawnChild(s, m, p) => format!(
                "spawn e{}{{{}}} as child of e{}",
                s + 1,
                (1..8u8)
                    .filter(|t| m & (1 << t) != 0)
                    .map(ctag_name)
                    .collect::<Vec<_>>()
                    .join(","),
                p + 1
            ),
            Op::Despawn(s) => format!("despawn e{}", s + 1),
            Op::Unmark(s) => format!("unmark e{}", s + 1),
            Op::Mark(s) => format!("mark e{}", s + 1),
            Op::ReMark(s) => format!("re-insert Replicated on e{}", s + 1),
            Op::Ins(s, t) => format!("insert {} on e{}", ctag_name(t), s + 1),
            Op::ReIns(s, t) => format!("re-insert {} on e{}", ctag_name(t), s + 1),
            Op::Rm(s, t) => format!("remove {} from e{}", ctag_name(t), s + 1),
            Op::Mut(s, t) => format!("mutate {} of e{}", ctag_name(t), s + 1),
            Op::Vis(c, s, v) => format!("vis(c{},e{},{})", c, s + 1, v),
            Op::InsRef(s, t) => format!("insert R->e{} on e{}", t + 1, s + 1),
            Op::MutRef(s, t) => format!("re-point R of e{} at e{}", s + 1, t + 1),
            Op::SetParent(s, p) => format!("set parent of e{} to e{}", s + 1, p + 1),
            Op::ClearParent(s) => format!("clear parent of e{}", s + 1),
            Op::InsPoison(s) => format!("insert F with a value the client refuses on e{}", s + 1),
            Op::InsF(s) => format!("insert F on e{}", s + 1),
            Op::MutPoison(s) => format!("mutate F of e{} to a value the client refuses", s + 1),
            Op::SetOwner(s, p) => format!("set owner of e{} to e{}", s + 1, p + 1),
            Op::ClearOwner(s) => format!("clear owner of e{}", s + 1),
            Op::InsBig(s, l) => format!("insert Big({l}) on e{}", s + 1),
            Op::MutBig(s, l) => format!("mutate Big({l}) of e{}", s + 1),
            Op::MapPre(c, s) => format!("prespawn on c{c} + map e{}", s + 1),
            Op::MapPreUnmarked(c, s) => format!("prespawn on c{c} + map unmarked e{}", s + 1),
            Op::MapPreEarly(c, s) => format!("prespawn on unauthorized c{c} + map e{}", s + 1),
            Op::MapLate(c, s) => format!("prespawn on c{c} + map existing hidden e{}", s + 1),
            Op::MapPrePredicted(c, s) => format!("prespawn with predicted B on c{c} + map e{}{{A,B}}", s + 1),
            Op::MapPreSameId(c, s) => format!("prespawn on c{c} with the server entity's own id + map e{}", s + 1),
            Op::MapPreMarked(c, s) => format!("prespawn with Replicated on c{c} + map e{}", s + 1),
            Op::DespawnPre(c, s) => format!("c{c} despawns its prespawned entity for e{}", s + 1),
            Op::AlignNextId(c, s) => format!("c{c} allocates local entities up to the id of the server's e{}", s + 1),
        }
    }
}

// ------------------------------------------------------------------------------------------
// The simulation
// ------------------------------------------------------------------------------------------

#[derive(Clone, Debug)]
pub enum Action {
    Connect(usize),
    Op(Op),
    ServerFrame(bool),
    ToServer(usize, usize, Sel),
    ToClient(usize, usize, Sel),
    ClientFrame(usize),
}

pub struct Sim {
    pub cfg: Cfg,
    /// Semantic log of everything the harness did (used for twin executions).
    pub actions: Vec<Action>,
    pub server: App,
    pub clients: Vec<ClientSide>,
    pub server_channels: Vec<Channel>,
    pub client_channels: Vec<Channel>,
    /// Entity pool: slot -> last server entity spawned in that slot.
    pub ents: Vec<Option<Entity>>,
    pub ver: u8,
    /// Harness record of `set_visibility` calls: (client, entity bits) -> visible.
    pub vis_rec: BTreeMap<(usize, u64), bool>,
    /// Replicated server state at the end of every tick frame.
    pub snaps: BTreeMap<u32, Snap>,
    /// Visibility record at the end of every tick frame, per client.
    pub vis_snaps: BTreeMap<u32, Vec<BTreeSet<u64>>>,
    /// Which clients were authorized at the end of every tick frame.
    pub auth_snaps: BTreeMap<u32, Vec<bool>>,
    pub wire: Vec<WireRec>,
    pub server_frames: u32,
    pub last_tick: u32,
    pub last_frame_was_tick: bool,
    pub next_msg_id: u32,
    pub trace: std::collections::hash_map::DefaultHasher,
    pub transitions: u64,
    pub steps: Vec<String>,
    pub server_panicked: bool,
    /// Pre-spawned client entities: (client, slot) -> client entity.
    pub prespawned: BTreeMap<(usize, u8), Entity>,
    /// Pre-spawned entities the client despawned again before the mapping arrived.
    pub pre_despawned: BTreeSet<(usize, u8)>,
    /// (client, slot): the slot's entity was despawned while marked, visible to the client and
    /// mapped to an entity the client had spawned in advance.
    pub despawned_mapped: BTreeSet<(usize, u8)>,
    /// Messages the server produced for a connection that no longer exists.
    pub orphan_messages: u32,
    pub server_stopped_pending_reset: bool,
    /// The reset at a stop touches `ServerTick`: the first running frame of the next session
    /// sends replication even if the tick number is not incremented.
    pub send_forced_by_restart: bool,
    /// Client whose connection is closed by the transport after this frame's send systems.
    pub pending_drop: Option<usize>,
    /// `MapLate`: (client, slot) -> tick whose update message carries the mapping (None until sent).
    pub late_map_tick: BTreeMap<(usize, u8), Option<u32>>,
    /// Messages that were still in flight to a client when its last session ended (a transport
    /// may hand such stragglers over while the next connection is being established).
    pub stragglers: BTreeMap<usize, Vec<(usize, Bytes)>>,
    /// Ticks of the update messages handed to each client so far.
    pub delivered_update_ticks: BTreeMap<usize, BTreeSet<u32>>,
    /// (client, client entity) -> (last tick, mask) of its confirmation history after the previous frame.
    pub prev_hist: BTreeMap<(usize, u64), (u32, u64)>,
    pub acks: AckModel,
    /// (etag, ctag) -> (version, first tick at which that version was observable) of the last edit.
    pub last_edit: BTreeMap<(u8, u8), (u8, Option<u32>)>,
    /// Send-once components: (client, entity bits) -> [(tick of a full send, value sent)].
    pub once_sent: BTreeMap<(usize, u64), Vec<(u32, CV)>>,
    /// Entities whose send-once component was (re)inserted since the last tick.
    pub once_inserted: BTreeSet<u64>,
    /// Confirmed tick seen last per (client, client entity) - C02 oracle state.
    pub prev_confirmed: BTreeMap<(usize, u64), u32>,
}

impl Sim {
    pub fn new(cfg: &Cfg) -> Sim {
        let server = build_app(cfg);
        let channels = server.world().resource::<RepliconChannels>();
        let server_channels = channels.server_channels().to_vec();
        let client_channels = channels.client_channels().to_vec();
        let mut sim = Sim {
            cfg: cfg.clone(),
            actions: Vec::new(),
            server,
            clients: Vec::new(),
            server_channels,
            client_channels,
            ents: vec![None; 6],
            ver: 0,
            vis_rec: BTreeMap::new(),
            snaps: BTreeMap::new(),
            vis_snaps: BTreeMap::new(),
            auth_snaps: BTreeMap::new(),
            wire: Vec::new(),
            server_frames: 0,
            last_tick: 0,
            last_frame_was_tick: false,
            next_msg_id: 0,
            trace: Default::default(),
            transitions: 0,
            steps: Vec::new(),
            server_panicked: false,
            prespawned: BTreeMap::new(),
            pre_despawned: BTreeSet::new(),
            despawned_mapped: BTreeSet::new(),
            orphan_messages: 0,
            server_stopped_pending_reset: false,
            send_forced_by_restart: false,
            pending_drop: None,
            late_map_tick: BTreeMap::new(),
            stragglers: BTreeMap::new(),
            delivered_update_ticks: BTreeMap::new(),
            prev_hist: BTreeMap::new(),
            acks: AckModel::default(),
            last_edit: BTreeMap::new(),
            once_sent: BTreeMap::new(),
            once_inserted: BTreeSet::new(),
            prev_confirmed: BTreeMap::new(),
        };
        sim.snaps.insert(0, Snap::new());
        sim.vis_snaps
            .insert(0, vec![BTreeSet::new(); cfg.clients.len()]);
        sim.auth_snaps.insert(0, vec![false; cfg.clients.len()]);
        if cfg.paused_frames > 0 {
            sim.server.world_mut().resource_mut::<Time<Virtual>>().pause();
            for _ in 0..cfg.paused_frames {
                sim.server.update();
            }
            sim.server.world_mut().resource_mut::<Time<Virtual>>().unpause();
        }
        sim.server
            .world_mut()
            .resource_mut::<RepliconServer>()
            .set_running(true);
        if cfg.tick_offset != 0 {
            sim.server
                .world_mut()
                .resource_mut::<ServerTick>()
                .increment_by(cfg.tick_offset);
            sim.snaps.insert(cfg.tick_offset, Snap::new());
            sim.vis_snaps
                .insert(cfg.tick_offset, vec![BTreeSet::new(); cfg.clients.len()]);
            sim.auth_snaps
                .insert(cfg.tick_offset, vec![false; cfg.clients.len()]);
        }
        for (i, &max_size) in cfg.clients.iter().enumerate() {
            let app = build_app_with(cfg, cfg.mismatch.contains(&i));
            sim.clients.push(ClientSide {
                app,
                conn: None,
                max_size,
                s2c: vec![VecDeque::new(); sim.server_channels.len()],
                c2s: vec![VecDeque::new(); sim.client_channels.len()],
                frames: 0,
                panicked: false,
                session: 0,
            });
        }
        sim
    }

    pub fn note(&mut self, s: impl Into<String>) {
        self.steps.push(s.into());
    }

    // -- connections -----------------------------------------------------------------------

    pub fn connect(&mut self, c: usize) {
        self.actions.push(Action::Connect(c));
        let max_size = self.clients[c].max_size;
        let conn = self
            .server
            .world_mut()
            .spawn(ConnectedClient { max_size })
            .id();
        let cl = &mut self.clients[c];
        cl.conn = Some(conn);
        cl.session += 1;
        if self.cfg.backend_style {
            cl.app.world_mut().resource_mut::<Inbox>().connect = true;
        } else {
            cl.app
                .world_mut()
                .resource_mut::<RepliconClient>()
                .set_status(RepliconClientStatus::Connected);
        }
    }

    /// The transport reports `Connecting` for a few client frames before `Connected`.
    pub fn connect_slowly(&mut self, c: usize, frames: usize) {
        self.clients[c]
            .app
            .world_mut()
            .resource_mut::<RepliconClient>()
            .set_status(RepliconClientStatus::Connecting);
        // stragglers of the previous session arrive while the new connection is being set up
        if let Some(late) = self.stragglers.remove(&c) {
            let mut client = self.clients[c].app.world_mut().resource_mut::<RepliconClient>();
            for (ch, bytes) in late {
                client.insert_received(ch, bytes);
            }
        }
        for _ in 0..frames {
            let _ = self.client_frame(c);
        }
        self.connect(c);
    }

    /// The connection is lost, the client's transport retries (`Connecting`) for a frame and
    /// then gives up.
    pub fn disconnect_slowly(&mut self, c: usize) {
        if let Some(conn) = self.clients[c].conn.take() {
            if self.server.world().get_entity(conn).is_ok() {
                self.server.world_mut().entity_mut(conn).despawn();
            }
        }
        self.clients[c]
            .app
            .world_mut()
            .resource_mut::<RepliconClient>()
            .set_status(RepliconClientStatus::Connecting);
        let _ = self.client_frame(c);
        self.disconnect(c);
    }

    /// The transport closes `c`'s connection inside the server's next frame, after the library
    /// queued that frame's messages and before the transport would flush them.
    pub fn disconnect_after_send(&mut self, c: usize) {
        if let Some(conn) = self.clients[c].conn {
            self.server.world_mut().resource_mut::<DropAfterSend>().0.push(conn);
            self.pending_drop = Some(c);
        }
    }

    /// The transport notices in its receive set of the server's next frame that `c`'s connection
    /// is gone (the messages `c` sent before are already in the server's mailbox).
    pub fn disconnect_in_receive(&mut self, c: usize) {
        if let Some(conn) = self.clients[c].conn {
            self.server.world_mut().resource_mut::<DropInReceive>().0.push(conn);
            self.pending_drop = Some(c);
        }
    }

    /// Transport-level disconnect seen by both sides; in-flight traffic is discarded.
    pub fn disconnect(&mut self, c: usize) {
        if let Some(conn) = self.clients[c].conn.take() {
            if self.server.world().get_entity(conn).is_ok() {
                self.server.world_mut().entity_mut(conn).despawn();
            }
        }
        let cl = &mut self.clients[c];
        cl.app
            .world_mut()
            .resource_mut::<RepliconClient>()
            .set_status(RepliconClientStatus::Disconnected);
        if let Some(mut inbox) = cl.app.world_mut().get_resource_mut::<Inbox>() {
            inbox.connect = false;
            inbox.msgs.clear();
        }
        let late: Vec<(usize, Bytes)> = cl.s2c.iter().enumerate().flat_map(|(ch, q)| q.iter().map(move |m| (ch, m.bytes.clone()))).collect();
        if !late.is_empty() {
            self.stragglers.insert(c, late);
        }
        for q in cl.s2c.iter_mut().chain(cl.c2s.iter_mut()) {
            q.clear();
        }
        let keys: Vec<_> = self
            .vis_rec
            .keys()
            .filter(|k| k.0 == c)
            .copied()
            .collect();
        for k in keys {
            self.vis_rec.remove(&k);
        }
        self.acks.in_flight.retain(|k, _| k.0 != c);
        self.acks.received_unacked.remove(&c);
        self.acks.pending_ack_ids.retain(|k| k.0 != c);
        self.acks.pending_acks.retain(|k| k.0 != c);
        self.acks.acked_tick.retain(|k, _| k.0 != c);
        self.acks.all.retain(|m| m.client != c);
        self.once_sent.retain(|k, _| k.0 != c);
        self.acks.delivered.retain(|k| k.0 != c);
        self.acks.delivered_idx.retain(|k| k.0 != c);
        if let Some(mut seen) = self.clients[c]
            .app
            .world_mut()
            .get_resource_mut::<MutateTicksSeen>()
        {
            seen.0.clear();
        }
    }

    pub fn is_authorized(&self, c: usize) -> bool {
        self.clients[c].conn.is_some_and(|e| {
            self.server
                .world()
                .get_entity(e)
                .is_ok_and(|e| e.contains::<AuthorizedClient>())
        })
    }

    // -- world operations ------------------------------------------------------------------

    pub fn ent(&self, slot: u8) -> Option<Entity> {
        self.ents[slot as usize]
    }

    pub fn alive(&self, slot: u8) -> Option<Entity> {
        self.ent(slot)
            .filter(|&e| self.server.world().get_entity(e).is_ok())
    }

    fn has_tag(&self, e: Entity, t: u8) -> bool {
        let r = self.server.world().entity(e);
        match t {
            TA => r.contains::<A>(),
            TB => r.contains::<B>(),
            TP => r.contains::<P>(),
            TO => r.contains::<O>(),
            TR => r.contains::<R>(),
            TBIG => r.contains::<Big>(),
            TCHILD => r.contains::<ChildOf>(),
            _ => false,
        }
    }

    pub fn marked(&self, slot: u8) -> bool {
        self.alive(slot)
            .is_some_and(|e| self.server.world().entity(e).contains::<Replicated>())
    }

    /// Is `op` enabled in the current server state? (Disabled operations are never enumerated.)
    pub fn enabled(&self, op: Op) -> bool {
        match op {
            Op::Nop => true,
            Op::Spawn(s, _) => self.alive(s).is_none(),
            Op::SpawnChild(s, _, p) => s != p && self.alive(s).is_none() && self.marked(p),
            // Entities that a live reference (R or ChildOf) points at are never despawned or
            // unmarked through the alphabet: dangling references are outside every property.
            // (A parent may be despawned: its children go with it, nothing is left dangling.)
            Op::Despawn(s) => self.alive(s).is_some() && !self.referenced(s, false),
            Op::Unmark(s) => self.marked(s) && !self.referenced(s, true),
            Op::Mark(s) => self.alive(s).is_some() && !self.marked(s),
            Op::ReMark(s) => self.marked(s),
            Op::Ins(s, t) => self.alive(s).is_some_and(|e| !self.has_tag(e, t)),
            Op::Rm(s, t) | Op::Mut(s, t) | Op::ReIns(s, t) => self.alive(s).is_some_and(|e| self.has_tag(e, t)),
            Op::Vis(c, s, _) => {
                self.cfg.vis != Vis::All
                    && self.alive(s).is_some()
                    && self.is_authorized(c as usize)
            }
            // References only ever point at live, marked entities (no dangling references).
            Op::InsRef(s, t) => {
                s != t && self.alive(s).is_some_and(|e| !self.has_tag(e, TR)) && self.marked(t)
            }
            Op::MutRef(s, t) => {
                s != t
                    && self.marked(t)
                    && self.alive(s).is_some_and(|e| self.server.world().get::<R>(e).is_some_and(|r| Some(r.0) != self.alive(t)))
            }
            Op::SetParent(s, p) => {
                s != p
                    && self.alive(s).is_some()
                    && self.marked(p)
                    && self.parent_of(s) != self.alive(p)
                    && !self.is_ancestor(s, p)
            }
            Op::ClearParent(s) => self.alive(s).is_some_and(|e| self.has_tag(e, TCHILD)),
            Op::InsPoison(s) | Op::InsF(s) => self.cfg.with_f && self.alive(s).is_some_and(|e| self.server.world().get::<F>(e).is_none()),
            Op::MutPoison(s) => self.cfg.with_f && self.alive(s).is_some_and(|e| self.server.world().get::<F>(e).is_some()),
            Op::SetOwner(s, p) => {
                self.cfg.with_owner
                    && s != p
                    && self.alive(s).is_some()
                    && self.marked(p)
                    && self.alive(s).and_then(|e| self.server.world().get::<OwnedBy>(e).map(|o| o.0)) != self.alive(p)
            }
            Op::ClearOwner(s) => self.alive(s).is_some_and(|e| self.server.world().get::<OwnedBy>(e).is_some()),
            Op::InsBig(s, _) => self.alive(s).is_some_and(|e| !self.has_tag(e, TBIG)),
            Op::MutBig(s, _) => self.alive(s).is_some_and(|e| self.has_tag(e, TBIG)),
            Op::MapPre(c, s) | Op::MapPreUnmarked(c, s) | Op::MapPrePredicted(c, s) | Op::MapPreSameId(c, s) | Op::MapPreMarked(c, s) => {
                self.alive(s).is_none()
                    && !self.prespawned.contains_key(&(c as usize, s))
                    && self.is_authorized(c as usize)
            }
            Op::AlignNextId(_, s) => self.alive(s).is_some(),
            Op::MapLate(c, s) => {
                self.cfg.vis != Vis::All
                    && self.marked(s)
                    && !self.prespawned.contains_key(&(c as usize, s))
                    && self.is_authorized(c as usize)
                    && !self.visible_now(c as usize, self.alive(s).unwrap().to_bits())
            }
            Op::MapPreEarly(c, s) => {
                self.alive(s).is_none()
                    && !self.prespawned.contains_key(&(c as usize, s))
                    && self.clients[c as usize].conn.is_some()
                    && !self.is_authorized(c as usize)
            }
            // Only before the mapping reached the client (afterwards the entity is replicated
            // state and despawning it locally is outside the property).
            Op::DespawnPre(c, s) => {
                self.prespawned.get(&(c as usize, s)).is_some_and(|pre| {
                    let app = &self.clients[c as usize].app;
                    app.world().get_entity(*pre).is_ok()
                        && !app
                            .world()
                            .resource::<ServerEntityMap>()
                            .to_server()
                            .contains_key(pre)
                })
            }
        }
    }

    /// Does any live entity hold an `R` or `ChildOf` pointing at `slot`?
    fn referenced(&self, slot: u8, count_children: bool) -> bool {
        let Some(target) = self.alive(slot) else {
            return false;
        };
        (0..self.ents.len() as u8).any(|s| {
            s != slot
                && self.alive(s).is_some_and(|e| {
                    let r = self.server.world().entity(e);
                    r.get::<R>().is_some_and(|r| r.0 == target)
                        || r.get::<OwnedBy>().is_some_and(|o| o.0 == target)
                        || (count_children
                            && r.get::<ChildOf>().is_some_and(|c| c.parent() == target))
                })
        })
    }

    fn parent_of(&self, slot: u8) -> Option<Entity> {
        self.alive(slot)
            .and_then(|e| self.server.world().get::<ChildOf>(e).map(|c| c.parent()))
    }

    /// Is slot `a` an ancestor of slot `b` (or equal)?
    fn is_ancestor(&self, a: u8, b: u8) -> bool {
        let Some(ea) = self.alive(a) else {
            return false;
        };
        let mut cur = self.alive(b);
        let mut n = 0;
        while let Some(e) = cur {
            if e == ea {
                return true;
            }
            cur = self.server.world().get::<ChildOf>(e).map(|c| c.parent());
            n += 1;
            if n > 8 {
                break;
            }
        }
        false
    }

    fn next_ver(&mut self) -> u8 {
        self.ver = self.ver.wrapping_add(1);
        self.ver
    }

    pub fn apply_op(&mut self, op: Op) {
        debug_assert!(self.enabled(op), "op {op:?} applied while disabled");
        self.actions.push(Action::Op(op));
        let v = self.next_ver();
        match op {
            Op::Mut(s, t) | Op::Ins(s, t) | Op::ReIns(s, t) => {
                self.last_edit.insert((s + 1, t), (v, None));
                if t == TO && matches!(op, Op::Ins(..) | Op::ReIns(..)) {
                    if let Some(e) = self.alive(s) {
                        self.once_inserted.insert(e.to_bits());
                    }
                }
            }
            Op::MutBig(s, _) | Op::InsBig(s, _) => {
                self.last_edit.insert((s + 1, TBIG), (v, None));
            }
            Op::Spawn(s, mask) | Op::SpawnChild(s, mask, _) => {
                for t in 1..8u8 {
                    if mask & (1 << t) != 0 {
                        self.last_edit.insert((s + 1, t), (v, None));
                    }
                }
            }
            Op::MapPrePredicted(_, s) => {
                self.last_edit.insert((s + 1, TA), (v, None));
                self.last_edit.insert((s + 1, TB), (v, None));
            }
            Op::MapPreSameId(_, s) | Op::MapPreMarked(_, s) => {
                self.last_edit.insert((s + 1, TA), (v, None));
            }
            Op::MapPre(_, s) | Op::MapPreUnmarked(_, s) | Op::MapPreEarly(_, s) => {
                self.last_edit.insert((s + 1, TA), (v, None));
            }
            Op::InsRef(s, _) | Op::MutRef(s, _) => {
                self.last_edit.insert((s + 1, TR), (v, None));
            }
            _ => {}
        }
        match op {
            Op::Nop => {}
            Op::Spawn(s, mask) => {
                let etag = s + 1;
                let mut e = self.server.world_mut().spawn(Replicated);
                if mask & (1 << TA) != 0 {
                    e.insert(A(val(etag, TA, v)));
                }
                if mask & (1 << TB) != 0 {
                    e.insert(B(val(etag, TB, v)));
                }
                if mask & (1 << TP) != 0 {
                    e.insert(P(val(etag, TP, v)));
                }
                if mask & (1 << TO) != 0 {
                    e.insert(O(val(etag, TO, v)));
                }
                let id = e.id();
                self.ents[s as usize] = Some(id);
            }
            Op::SpawnChild(s, mask, p) => {
                let etag = s + 1;
                let pe = self.alive(p).unwrap();
                let id = match (mask & (1 << TA) != 0, mask & (1 << TB) != 0) {
                    (true, true) => self
                        .server
                        .world_mut()
                        .spawn((Replicated, A(val(etag, TA, v)), B(val(etag, TB, v)), ChildOf(pe)))
                        .id(),
                    (true, false) => self.server.world_mut().spawn((Replicated, A(val(etag, TA, v)), ChildOf(pe))).id(),
                    (false, true) => self.server.world_mut().spawn((Replicated, B(val(etag, TB, v)), ChildOf(pe))).id(),
                    (false, false) => self.server.world_mut().spawn((Replicated, ChildOf(pe))).id(),
                };
                self.ents[s as usize] = Some(id);
            }
            Op::Despawn(s) => {
                let e = self.alive(s).unwrap();
                if self.marked(s) {
                    let keys: Vec<(usize, u8)> = self.prespawned.keys().filter(|k| k.1 == s).copied().collect();
                    for (c, _) in keys {
                        if self.is_authorized(c)
                            && self.visible_now(c, e.to_bits())
                            && !self.late_map_tick.contains_key(&(c, s))
                            && !self.pre_despawned.contains(&(c, s))
                        {
                            self.despawned_mapped.insert((c, s));
                        }
                    }
                }
                self.server.world_mut().entity_mut(e).despawn();
                let bits = e.to_bits();
                let keys: Vec<_> = self
                    .vis_rec
                    .keys()
                    .filter(|k| k.1 == bits)
                    .copied()
                    .collect();
                for k in keys {
                    self.vis_rec.remove(&k);
                }
            }
            Op::Unmark(s) => {
                let e = self.alive(s).unwrap();
                self.server.world_mut().entity_mut(e).remove::<Replicated>();
            }
            Op::Mark(s) | Op::ReMark(s) => {
                let e = self.alive(s).unwrap();
                self.server.world_mut().entity_mut(e).insert(Replicated);
            }
            Op::Ins(s, t) | Op::Mut(s, t) | Op::ReIns(s, t) => {
                let e = self.alive(s).unwrap();
                let etag = s + 1;
                let is_mut = matches!(op, Op::Mut(..));
                let mut em = self.server.world_mut().entity_mut(e);
                match t {
                    TA => set_or_insert(&mut em, is_mut, A(val(etag, TA, v))),
                    TB => set_or_insert(&mut em, is_mut, B(val(etag, TB, v))),
                    TP => set_or_insert(&mut em, is_mut, P(val(etag, TP, v))),
                    TO => set_or_insert(&mut em, is_mut, O(val(etag, TO, v))),
                    TR => {
                        // mutate the payload of R, keep its target
                        let tgt = em.get::<R>().map(|r| r.0).unwrap();
                        set_or_insert(&mut em, true, R(tgt, val(etag, TR, v)));
                    }
                    _ => panic!("unsupported tag {t}"),
                }
            }
            Op::Rm(s, t) => {
                let e = self.alive(s).unwrap();
                let mut em = self.server.world_mut().entity_mut(e);
                match t {
                    TA => {
                        em.remove::<A>();
                    }
                    TB => {
                        em.remove::<B>();
                    }
                    TP => {
                        em.remove::<P>();
                    }
                    TO => {
                        em.remove::<O>();
                    }
                    TR => {
                        em.remove::<R>();
                    }
                    TBIG => {
                        em.remove::<Big>();
                    }
                    _ => panic!("unsupported tag {t}"),
                }
            }
            Op::Vis(c, s, visible) => {
                let e = self.alive(s).unwrap();
                let conn = self.clients[c as usize].conn.unwrap();
                self.server
                    .world_mut()
                    .get_mut::<ClientVisibility>(conn)
                    .expect("authorized client should have visibility")
                    .set_visibility(e, visible);
                self.vis_rec.insert((c as usize, e.to_bits()), visible);
            }
            Op::InsRef(s, t) => {
                let e = self.alive(s).unwrap();
                let tgt = self.alive(t).unwrap();
                self.server
                    .world_mut()
                    .entity_mut(e)
                    .insert(R(tgt, val(s + 1, TR, v)));
            }
            Op::MutRef(s, t) => {
                let e = self.alive(s).unwrap();
                let tgt = self.alive(t).unwrap();
                *self.server.world_mut().get_mut::<R>(e).unwrap() = R(tgt, val(s + 1, TR, v));
            }
            Op::SetParent(s, p) => {
                let e = self.alive(s).unwrap();
                let pe = self.alive(p).unwrap();
                self.server.world_mut().entity_mut(e).insert(ChildOf(pe));
            }
            Op::ClearParent(s) => {
                let e = self.alive(s).unwrap();
                self.server.world_mut().entity_mut(e).remove::<ChildOf>();
            }
            Op::InsPoison(s) => {
                let e = self.alive(s).unwrap();
                self.server.world_mut().entity_mut(e).insert(F([MAGIC, s + 1, 8, v, 0x5B]));
            }
            Op::InsF(s) => {
                let e = self.alive(s).unwrap();
                self.server.world_mut().entity_mut(e).insert(F([MAGIC, s + 1, 8, v, MAGIC_END]));
            }
            Op::MutPoison(s) => {
                let e = self.alive(s).unwrap();
                *self.server.world_mut().get_mut::<F>(e).unwrap() = F([MAGIC, s + 1, 8, v, 0x5B]);
            }
            Op::SetOwner(s, p) => {
                let e = self.alive(s).unwrap();
                let pe = self.alive(p).unwrap();
                self.server.world_mut().entity_mut(e).insert(OwnedBy(pe));
            }
            Op::ClearOwner(s) => {
                let e = self.alive(s).unwrap();
                self.server.world_mut().entity_mut(e).remove::<OwnedBy>();
            }
            Op::InsBig(s, len) | Op::MutBig(s, len) => {
                let e = self.alive(s).unwrap();
                let is_mut = matches!(op, Op::MutBig(..));
                let mut em = self.server.world_mut().entity_mut(e);
                set_or_insert(&mut em, is_mut, Big(big_val(s + 1, v, len as usize)));
            }
            Op::DespawnPre(c, s) => {
                let pre = self.prespawned[&(c as usize, s)];
                self.clients[c as usize].app.world_mut().entity_mut(pre).despawn();
                self.pre_despawned.insert((c as usize, s));
            }
            Op::MapLate(c, s) => {
                let pre = self.clients[c as usize].app.world_mut().spawn_empty().id();
                self.prespawned.insert((c as usize, s), pre);
                self.late_map_tick.insert((c as usize, s), None);
                let id = self.alive(s).unwrap();
                let conn = self.clients[c as usize].conn.unwrap();
                self.server
                    .world_mut()
                    .get_mut::<ClientEntityMap>(conn)
                    .expect("authorized client has an entity map")
                    .insert(id, pre);
            }
            Op::MapPreSameId(c, s) => {
                let etag = s + 1;
                let id = self.server.world_mut().spawn((Replicated, A(val(etag, TA, v)))).id();
                self.ents[s as usize] = Some(id);
                // the client allocates entities until it reaches the server entity's id
                let w = self.clients[c as usize].app.world_mut();
                let mut pre = w.spawn_empty().id();
                let mut guard = 0;
                while pre.index() < id.index() && guard < 64 {
                    pre = w.spawn_empty().id();
                    guard += 1;
                }
                self.prespawned.insert((c as usize, s), pre);
                let conn = self.clients[c as usize].conn.unwrap();
                self.server
                    .world_mut()
                    .get_mut::<ClientEntityMap>(conn)
                    .expect("authorized client has an entity map")
                    .insert(id, pre);
            }
            Op::AlignNextId(c, s) => {
                let id = self.alive(s).unwrap();
                let w = self.clients[c as usize].app.world_mut();
                let mut guard = 0;
                loop {
                    let e = w.spawn_empty().id();
                    guard += 1;
                    if e.generation() == id.generation() && e.index() + 1 == id.index() {
                        break;
                    }
                    assert!(
                        e.index() < id.index() && guard < 256,
                        "c{c}'s allocator cannot reach {id} any more (it handed out {e})"
                    );
                }
            }
            Op::MapPreMarked(c, s) => {
                let etag = s + 1;
                let pre = self.clients[c as usize].app.world_mut().spawn(Replicated).id();
                self.prespawned.insert((c as usize, s), pre);
                let id = self.server.world_mut().spawn((Replicated, A(val(etag, TA, v)))).id();
                self.ents[s as usize] = Some(id);
                let conn = self.clients[c as usize].conn.unwrap();
                self.server
                    .world_mut()
                    .get_mut::<ClientEntityMap>(conn)
                    .expect("authorized client has an entity map")
                    .insert(id, pre);
            }
            Op::MapPrePredicted(c, s) => {
                let etag = s + 1;
                let pre = self.clients[c as usize].app.world_mut().spawn(B(val(etag, TB, 0))).id();
                self.prespawned.insert((c as usize, s), pre);
                let id = self.server.world_mut().spawn((Replicated, A(val(etag, TA, v)), B(val(etag, TB, v)))).id();
                self.ents[s as usize] = Some(id);
                let conn = self.clients[c as usize].conn.unwrap();
                self.server
                    .world_mut()
                    .get_mut::<ClientEntityMap>(conn)
                    .expect("authorized client has an entity map")
                    .insert(id, pre);
            }
            Op::MapPre(c, s) | Op::MapPreUnmarked(c, s) | Op::MapPreEarly(c, s) => {
                // The client spawns its entity in advance; the server spawns its own and
                // registers the correspondence before the entity is first replicated.
                // (for odd slots the client entity lives in a re-used slot: generation > 1)
                if s % 2 == 1 {
                    let w = self.clients[c as usize].app.world_mut();
                    let dummy = w.spawn_empty().id();
                    w.despawn(dummy);
                }
                let pre = self.clients[c as usize].app.world_mut().spawn_empty().id();
                self.prespawned.insert((c as usize, s), pre);
                let etag = s + 1;
                let id = if matches!(op, Op::MapPre(..) | Op::MapPreEarly(..)) {
                    self.server
                        .world_mut()
                        .spawn((Replicated, A(val(etag, TA, v))))
                        .id()
                } else {
                    self.server.world_mut().spawn(A(val(etag, TA, v))).id()
                };
                self.ents[s as usize] = Some(id);
                let conn = self.clients[c as usize].conn.unwrap();
                if self.server.world().get::<ClientEntityMap>(conn).is_none() {
                    // ahead of the authorization the game inserts the component itself
                    self.server.world_mut().entity_mut(conn).insert(ClientEntityMap::default());
                }
                self.server
                    .world_mut()
                    .get_mut::<ClientEntityMap>(conn)
                    .expect("entity map on the connection")
                    .insert(id, pre);
            }
        }
    }

    // -- frames ----------------------------------------------------------------------------

    /// Truth about what client `c` may see right now: policy default overridden by the last
    /// `set_visibility` call for a live entity.
    pub fn visible_now(&self, c: usize, bits: u64) -> bool {
        match self.cfg.vis {
            Vis::All => true,
            Vis::Blacklist => self.vis_rec.get(&(c, bits)).copied().unwrap_or(true),
            Vis::Whitelist => self.vis_rec.get(&(c, bits)).copied().unwrap_or(false),
        }
    }

    pub fn server_tick(&self) -> u32 {
        self.server.world().resource::<ServerTick>().get()
    }

    pub fn server_snap(&mut self) -> Snap {
        let world = self.server.world_mut();
        let mut q = world.query_filtered::<EntityRef, With<Replicated>>();
        let back = |e: Entity| Some(e.to_bits());
        q.iter(world)
            .map(|e| (e.id().to_bits(), read_comps(e, &back)))
            .collect()
    }

    /// Runs one server frame. `tick`: under manual wiring, increment the tick before the frame.
    pub fn server_frame(&mut self, tick: bool) -> Result<(), Violation> {
        self.actions.push(Action::ServerFrame(tick));
        let before = self.server_tick();
        if tick && self.cfg.tick == TickWiring::Manual {
            self.server
                .world_mut()
                .resource_mut::<ServerTick>()
                .increment();
        }
        self.transitions += 1;
        self.server_frames += 1;
        let r = guarded(|| self.server.update());
        if let Err((msg, loc)) = r {
            self.server_panicked = true;
            self.note(format!("  SERVER PANIC: {msg} at {loc}"));
            return Err(Violation::new("", "panic", format!("server panicked: {msg} ({loc})"))
                .feat("side:server")
                .feat(format!("at:{}", short_loc(&loc))));
        }
        let now = self.server_tick();
        let mut was_reset = false;
        if self.server_stopped_pending_reset && now < before {
            was_reset = true;
            // The server was stopped: tick numbering restarts, old snapshots are meaningless.
            self.snaps.clear();
            self.vis_snaps.clear();
            self.auth_snaps.clear();
            self.snaps.insert(0, Snap::new());
            self.vis_snaps
                .insert(0, vec![BTreeSet::new(); self.clients.len()]);
            self.auth_snaps.insert(0, vec![false; self.clients.len()]);
            self.server_stopped_pending_reset = false;
        }
        let forced = self.send_forced_by_restart && !was_reset && self.server_running();
        if forced {
            self.send_forced_by_restart = false;
        }
        let is_tick = (now != before && !was_reset) || forced;
        self.last_frame_was_tick = is_tick;
        self.last_tick = now;
        if is_tick {
            for t in self.late_map_tick.values_mut() {
                if t.is_none() {
                    *t = Some(now);
                }
            }
            for e in self.last_edit.values_mut() {
                if e.1.is_none() {
                    e.1 = Some(now);
                }
            }
            let snap = self.server_snap();
            let vis: Vec<BTreeSet<u64>> = (0..self.clients.len())
                .map(|c| {
                    snap.keys()
                        .copied()
                        .filter(|&b| self.visible_now(c, b))
                        .collect()
                })
                .collect();
            let auth: Vec<bool> = (0..self.clients.len())
                .map(|c| self.is_authorized(c))
                .collect();
            // send-once components: which (client, entity) received the component in full at this tick
            // the previous tick (not the largest key: tick numbers wrap around)
            let prev_tick = Some(before).filter(|p| self.snaps.contains_key(p));
            for c in 0..self.clients.len() {
                if !auth[c] {
                    continue;
                }
                for (e, comps) in &snap {
                    let Some(o) = comps.get(&TO) else { continue };
                    if !vis[c].contains(e) {
                        continue;
                    }
                    let had_before = prev_tick.is_some_and(|p| {
                        self.auth_snaps[&p][c]
                            && self.vis_snaps[&p][c].contains(e)
                            && self.snaps[&p].get(e).is_some_and(|cs| cs.contains_key(&TO))
                    });
                    if !had_before || self.once_inserted.contains(e) {
                        self.once_sent.entry((c, *e)).or_default().push((now, o.clone()));
                    }
                }
            }
            self.once_inserted.clear();
            self.snaps.insert(now, snap);
            self.vis_snaps.insert(now, vis);
            self.auth_snaps.insert(now, auth);
        }
        // Acknowledgements put into the mailbox before this frame were processed in PreUpdate,
        // i.e. before this frame's replication was collected.
        for (c, idx) in std::mem::take(&mut self.acks.pending_acks) {
            if !self.acks.format_unknown && !self.acks.delivered_idx.contains(&(c, idx)) {
                self.acks.spurious_acks.push((c, idx));
            }
        }
        for (c, id) in std::mem::take(&mut self.acks.pending_ack_ids) {
            let Some(info) = self.acks.all.iter().find(|i| i.id == id && i.client == c).cloned() else { continue };
            if self.acks.in_flight.get(&(c, info.index)).is_some_and(|i| i.id == id) {
                self.acks.in_flight.remove(&(c, info.index));
            }
            let etags: BTreeSet<u8> = info.payloads.iter().map(|p| p.0).collect();
            for e in etags {
                let t = self.acks.acked_tick.entry((c, e)).or_insert(0);
                *t = (*t).max(info.tick);
            }
        }
        // a connection closed after the send systems: whatever is still queued for it is orphaned
        let dropped = self.pending_drop.take();
        if let Some(c) = dropped {
            self.clients[c].conn = None;
        }
        let sent: Vec<(Entity, usize, Bytes)> = self
            .server
            .world_mut()
            .resource_mut::<RepliconServer>()
            .drain_sent()
            .collect();
        for (conn, ch, bytes) in sent {
            let Some(c) = self.clients.iter().position(|cl| cl.conn == Some(conn)) else {
                // Message for a connection the harness no longer knows: dropped by the transport.
                self.orphan_messages += 1;
                conn.to_bits().hash(&mut self.trace);
                continue;
            };
            let id = self.next_msg_id;
            self.next_msg_id += 1;
            (c, ch, &bytes[..]).hash(&mut self.trace);
            self.wire.push(WireRec {
                server_frame: self.server_frames,
                tick: now,
                is_tick_frame: is_tick,
                client: c,
                channel: ch,
                bytes: bytes.clone(),
                id,
            });
            if ch == 0 {
                // What travels in an update message is on the reliable channel: the server
                // treats it as acknowledged from this tick on.
                let etags: BTreeSet<u8> = payloads_in(&bytes).iter().map(|p| p.0).collect();
                for e in etags {
                    let t = self.acks.acked_tick.entry((c, e)).or_insert(0);
                    *t = (*t).max(now);
                }
            }
            if ch == 1 {
                match parse_mutate(self.cfg.track, c, self.wire.last().unwrap()) {
                    // sanity: the message tick the parser read must be the tick of this frame
                    Some(info) if info.tick == now => {
                        self.acks.in_flight.insert((c, info.index), info.clone());
                        self.acks.all.push(info);
                    }
                    _ => self.acks.format_unknown = true,
                }
            }
            self.clients[c].s2c[ch].push_back(Msg {
                id,
                bytes,
                frame: self.server_frames,
                tick: now,
            });
        }
        if let Some(c) = dropped {
            // the client side notices as well
            self.disconnect(c);
        }
        Ok(())
    }

    pub fn deliver_to_client(&mut self, c: usize, ch: usize, sel: &Sel) -> usize {
        if !self.clients[c].s2c[ch].is_empty() {
            self.actions.push(Action::ToClient(c, ch, sel.clone()));
        }
        let msgs = take(&mut self.clients[c].s2c[ch], sel);
        let n = msgs.len();
        if ch == 0 {
            for m in &msgs {
                self.delivered_update_ticks.entry(c).or_default().insert(m.tick);
            }
        }
        if ch == 1 {
            for m in &msgs {
                self.acks.received_unacked.entry(c).or_default().push(m.id);
                self.acks.delivered.insert((c, m.id));
                if let Some(info) = self.acks.all.iter().find(|i| i.id == m.id) {
                    self.acks.delivered_idx.insert((c, info.index));
                }
            }
        }
        if self.cfg.backend_style {
            let mut inbox = self.clients[c].app.world_mut().resource_mut::<Inbox>();
            for m in msgs {
                inbox.msgs.push((ch, m.bytes));
            }
            return n;
        }
        let mut client = self.clients[c]
            .app
            .world_mut()
            .resource_mut::<RepliconClient>();
        for m in msgs {
            client.insert_received(ch, m.bytes);
        }
        n
    }

    /// C12 (end to end): `MutateTickReceived` / `ServerMutateTicks` must report a tick exactly
    /// when every mutate message the server sent for it to this client has been *applied*
    /// (delivered and no longer waiting for its update tick), and exactly once.
    /// C12 with a history-keeping marker: the tick of every mutate message that was applied to an
    /// entity (and lies inside the 64-tick window) is answered as confirmed by the entity's history.
    pub fn check_history(&mut self, c: usize, view: &ClientView) -> Result<(), Violation> {
        use bevy_replicon::{client::confirm_history::ConfirmHistory, prelude::RepliconTick};
        if self.acks.format_unknown {
            return Ok(());
        }
        // An entity without a history marker skips data older than its last confirmed tick, so
        // no tick older than that can become confirmed afterwards (except through an update
        // message of that tick).
        let mut now: Vec<((usize, u64), (u32, u64), bool)> = Vec::new();
        for ce in view.ents.values() {
            let ent = Entity::from_bits(ce.client_bits);
            let w = self.clients[c].app.world();
            let Some(h) = w.get::<ConfirmHistory>(ent) else { continue };
            now.push(((c, ce.client_bits), (h.last_tick().get(), h.mask()), w.get::<HistMarker>(ent).is_some()));
        }
        for (key, (last, mask), marked) in &now {
            if let Some(&(plast, pmask)) = self.prev_hist.get(key) {
                if !marked && !tick_older(*last, plast) {
                    for ago in 1..64u32 {
                        let t = plast.wrapping_sub(ago);
                        let d_now = last.wrapping_sub(t);
                        if d_now >= 64 {
                            break;
                        }
                        let confirmed_now = mask >> d_now & 1 == 1;
                        let confirmed_before = pmask >> ago & 1 == 1;
                        let by_update = self.delivered_update_ticks.get(&key.0).is_some_and(|s| s.contains(&t));
                        if confirmed_now && !confirmed_before && !by_update {
                            return Err(Violation::new(
                                "",
                                "older-tick-confirmed-without-history",
                                format!(
                                    "client c{c} entity {}: tick {t} is older than the entity's confirmed tick {plast} and was not confirmed, the entity carries no history marker, yet the tick is reported as confirmed now (last {last}, mask {mask:#b})",
                                    Entity::from_bits(key.1)
                                ),
                            ));
                        }
                    }
                }
            }
        }
        for (key, v, _) in now {
            self.prev_hist.insert(key, v);
        }
        for m in self.acks.all.iter().filter(|m| m.client == c) {
            if !self.acks.delivered.contains(&(c, m.id)) || tick_older(view.update_tick, m.update_tick) {
                continue;
            }
            let etags: BTreeSet<u8> = m.payloads.iter().map(|p| p.0).collect();
            for etag in etags {
                let Some(e) = self.ent(etag - 1) else { continue };
                let Some(ce) = view.ents.get(&e.to_bits()) else { continue };
                let Some(h) = self.clients[c].app.world().get::<ConfirmHistory>(Entity::from_bits(ce.client_bits)) else {
                    continue;
                };
                // (a plain entity skips late data and rightly does not confirm its tick)
                if self.clients[c].app.world().get::<HistMarker>(Entity::from_bits(ce.client_bits)).is_none() {
                    continue;
                }
                let last = h.last_tick().get();
                let ago = last.wrapping_sub(m.tick);
                if tick_older(last, m.tick) {
                    return Err(Violation::new(
                        "",
                        "applied-tick-not-confirmed",
                        format!("client c{c} entity {}: a mutate message of tick {} was applied but the last confirmed tick is {last}", fmt_bits(e.to_bits()), m.tick),
                    ));
                }
                if ago < 64 && !(h.contains(RepliconTick::new(m.tick)) && h.contains_any(RepliconTick::new(m.tick), RepliconTick::new(m.tick))) {
                    return Err(Violation::new(
                        "",
                        "applied-tick-not-confirmed",
                        format!(
                            "client c{c} entity {}: the mutate message of tick {} was applied to it (history marker present) but its confirmation history (last tick {last}, mask {:#b}) denies that tick",
                            fmt_bits(e.to_bits()),
                            m.tick,
                            h.mask()
                        ),
                    ));
                }
            }
        }
        Ok(())
    }

    pub fn check_mutate_ticks(&self, c: usize, view: &ClientView) -> Result<(), Violation> {
        use bevy_replicon::{client::server_mutate_ticks::ServerMutateTicks, prelude::RepliconTick};
        if self.acks.format_unknown {
            return Ok(());
        }
        let Some(seen) = self.clients[c].app.world().get_resource::<MutateTicksSeen>() else {
            return Ok(());
        };
        let mut counts: BTreeMap<u32, u32> = BTreeMap::new();
        for t in &seen.0 {
            *counts.entry(*t).or_default() += 1;
        }
        // messages per tick for this client (current session only)
        let mut per_tick: BTreeMap<u32, (usize, usize)> = BTreeMap::new(); // tick -> (sent, applied)
        for m in self.acks.all.iter().filter(|m| m.client == c) {
            let e = per_tick.entry(m.tick).or_default();
            e.0 += 1;
            let delivered = self.acks.delivered.contains(&(c, m.id));
            if delivered && m.update_tick <= view.update_tick {
                e.1 += 1;
            }
        }
        let tracker = self.clients[c].app.world().get_resource::<ServerMutateTicks>();
        let newest = per_tick.keys().next_back().copied().unwrap_or(0);
        for (t, (sent, applied)) in &per_tick {
            let fired = counts.get(t).copied().unwrap_or(0);
            let complete = sent == applied;
            if fired > 1 {
                return Err(Violation::new(
                    "",
                    "mutate-tick-notification",
                    format!("client c{c}: MutateTickReceived fired {fired} times for tick {t}"),
                ));
            }
            if fired == 1 && !complete {
                return Err(Violation::new(
                    "",
                    "mutate-tick-notification",
                    format!(
                        "client c{c}: MutateTickReceived fired for tick {t} although only {applied} of its {sent} mutate message(s) have been applied"
                    ),
                ));
            }
            if fired == 0 && complete && newest.saturating_sub(*t) < 60 {
                return Err(Violation::new(
                    "",
                    "mutate-tick-notification",
                    format!(
                        "client c{c}: all {sent} mutate message(s) of tick {t} have been applied but MutateTickReceived did not fire"
                    ),
                ));
            }
            if let Some(tr) = tracker {
                let last = tr.last_tick().get();
                if *t <= last && last - *t < 60 {
                    let got = tr.contains(RepliconTick::new(*t));
                    if got != complete {
                        return Err(Violation::new(
                            "",
                            "mutate-tick-tracker",
                            format!(
                                "client c{c}: ServerMutateTicks::contains({t}) = {got}, but {applied} of {sent} mutate message(s) of that tick have been applied"
                            ),
                        ));
                    }
                }
            }
        }
        Ok(())
    }

    pub fn deliver_to_server(&mut self, c: usize, ch: usize, sel: &Sel) -> usize {
        if !self.clients[c].c2s[ch].is_empty() {
            self.actions.push(Action::ToServer(c, ch, sel.clone()));
        }
        let msgs = take(&mut self.clients[c].c2s[ch], sel);
        let n = msgs.len();
        let Some(conn) = self.clients[c].conn else {
            return 0;
        };
        if ch == 0 {
            for m in &msgs {
                let mut named = BTreeSet::new();
                for pair in m.bytes.chunks(2) {
                    if pair.len() == 2 {
                        let idx = u16::from_le_bytes([pair[0], pair[1]]);
                        named.insert(idx);
                        self.acks.pending_acks.push((c, idx));
                    }
                }
                for id in self.acks.ack_ids.remove(&m.id).unwrap_or_default() {
                    if self.acks.all.iter().any(|i| i.id == id && named.contains(&i.index)) {
                        self.acks.pending_ack_ids.push((c, id));
                    }
                }
            }
        }
        let mut server = self.server.world_mut().resource_mut::<RepliconServer>();
        for m in msgs {
            server.insert_received(conn, ch, m.bytes);
        }
        n
    }

    pub fn client_frame(&mut self, c: usize) -> Result<(), Violation> {
        self.actions.push(Action::ClientFrame(c));
        self.transitions += 1;
        let cl = &mut self.clients[c];
        cl.frames += 1;
        let r = guarded(|| cl.app.update());
        if let Err((msg, loc)) = r {
            cl.panicked = true;
            self.note(format!("  CLIENT c{c} PANIC: {msg} at {loc}"));
            return Err(
                Violation::new("", "panic", format!("client c{c} panicked: {msg} ({loc})"))
                    .feat("side:client")
                    .feat(format!("at:{}", short_loc(&loc))),
            );
        }
        let frames = cl.frames;
        let sent: Vec<(usize, Bytes)> = cl
            .app
            .world_mut()
            .resource_mut::<RepliconClient>()
            .drain_sent()
            .collect();
        let answered = self.acks.received_unacked.remove(&c).unwrap_or_default();
        for (ch, bytes) in sent {
            let id = self.next_msg_id;
            self.next_msg_id += 1;
            if ch == 0 {
                // (which of them this message answers is decided by the indices it names)
                self.acks.ack_ids.insert(id, answered.clone());
            }
            (c, ch, &bytes[..], 1u8).hash(&mut self.trace);
            self.clients[c].c2s[ch].push_back(Msg {
                id,
                bytes,
                frame: frames,
                tick: 0,
            });
        }
        Ok(())
    }

    // -- views -----------------------------------------------------------------------------

    pub fn client_view(&mut self, c: usize) -> ClientView {
        if self.clients[c].panicked {
            // a panic inside a `resource_scope` leaves the world without that resource; the
            // execution already ended with a "panic" violation, later summaries see no state
            return ClientView::default();
        }
        let app = &mut self.clients[c].app;
        let map = app.world().resource::<ServerEntityMap>();
        let to_client: Vec<(Entity, Entity)> =
            map.to_client().iter().map(|(s, c)| (*s, *c)).collect();
        let to_server: BTreeMap<Entity, Entity> =
            map.to_server().iter().map(|(c, s)| (*c, *s)).collect();
        let update_tick = app.world().resource::<ServerUpdateTick>().get();
        let mut view = ClientView {
            update_tick,
            ..Default::default()
        };
        let back = |e: Entity| to_server.get(&e).map(|s| s.to_bits());
        let mut mapped_clients = BTreeSet::new();
        for (s, ce) in &to_client {
            mapped_clients.insert(*ce);
            if to_server.get(ce) != Some(s) {
                view.map_inconsistent
                    .push(format!("to_client[{s}]={ce} but to_server[{ce}]={:?}", to_server.get(ce)));
            }
            match app.world().get_entity(*ce) {
                Ok(e) => {
                    view.ents.insert(
                        s.to_bits(),
                        CEnt {
                            comps: read_comps(e, &back),
                            marked: e.contains::<Replicated>(),
                            last_tick: e.get::<ConfirmHistory>().map(|h| h.last_tick().get()),
                            client_bits: ce.to_bits(),
                        },
                    );
                }
                Err(_) => view.dead_mapped.push(s.to_bits()),
            }
        }
        for (ce, s) in &to_server {
            if !to_client.iter().any(|(s2, c2)| s2 == s && c2 == ce) {
                view.map_inconsistent
                    .push(format!("to_server[{ce}]={s} has no forward entry"));
            }
        }
        // (an entity the game itself spawned with the marker, ahead of its mapping, is the
        // game's, not replicated state)
        let own: BTreeSet<Entity> = self.prespawned.iter().filter(|(k, _)| k.0 == c).map(|(_, e)| *e).collect();
        let world = app.world_mut();
        let mut q = world.query_filtered::<Entity, With<Replicated>>();
        for e in q.iter(world) {
            if !mapped_clients.contains(&e) && !own.contains(&e) {
                view.unmapped_replicated.push(e.to_bits());
            }
        }
        view
    }

    /// Re-executes a recorded action log on fresh Apps, leaving out the operations selected by
    /// `skip`, and returns the views of client `observe` after each of its frames.
    pub fn run_twin(
        cfg: &Cfg,
        actions: &[Action],
        skip: &dyn Fn(&Op) -> bool,
        observe: usize,
    ) -> Result<Vec<ClientView>, Violation> {
        let mut twin = Sim::new(cfg);
        let mut views = Vec::new();
        for a in actions {
            match a {
                Action::Connect(c) => twin.connect(*c),
                Action::Op(op) => {
                    if !skip(op) && twin.enabled(*op) {
                        twin.apply_op(*op);
                    } else {
                        // keep value versions aligned with the original execution
                        twin.ver = twin.ver.wrapping_add(1);
                    }
                }
                Action::ServerFrame(t) => twin.server_frame(*t)?,
                Action::ToServer(c, ch, sel) => {
                    twin.deliver_to_server(*c, *ch, &twin.clamp(sel, twin.clients[*c].c2s[*ch].len()));
                }
                Action::ToClient(c, ch, sel) => {
                    twin.deliver_to_client(*c, *ch, &twin.clamp(sel, twin.clients[*c].s2c[*ch].len()));
                }
                Action::ClientFrame(c) => {
                    twin.client_frame(*c)?;
                    if *c == observe {
                        views.push(twin.client_view(*c));
                    }
                }
            }
        }
        Ok(views)
    }

    fn clamp(&self, sel: &Sel, n: usize) -> Sel {
        match sel {
            Sel::Indices(ix) => Sel::Indices(ix.iter().copied().filter(|&i| i < n).collect()),
            other => other.clone(),
        }
    }

    /// Transport-level server stop: every client is disconnected, in-flight traffic is lost and
    /// tick numbering starts again, so the per-tick snapshots of the old run are dropped.
    pub fn stop_server(&mut self) {
        self.server
            .world_mut()
            .resource_mut::<RepliconServer>()
            .set_running(false);
        for c in 0..self.clients.len() {
            self.disconnect(c);
        }
        self.server_stopped_pending_reset = true;
        self.send_forced_by_restart = true;
    }

    pub fn start_server(&mut self) {
        self.server
            .world_mut()
            .resource_mut::<RepliconServer>()
            .set_running(true);
    }

    /// Acknowledgement indices that name no in-flight message: one never used so far, one far
    /// in the future, and one that was already acknowledged (a repeat).
    pub fn inject_junk_acks(&mut self, c: usize) {
        let Some(conn) = self.clients[c].conn else { return };
        let used: BTreeSet<u16> = self.acks.all.iter().filter(|m| m.client == c).map(|m| m.index).collect();
        let in_flight: BTreeSet<u16> = self.acks.in_flight.keys().filter(|k| k.0 == c).map(|k| k.1).collect();
        let mut junk: Vec<u16> = Vec::new();
        let next_unused = (0..u16::MAX).find(|i| !used.contains(i)).unwrap();
        junk.push(next_unused.wrapping_add(7));
        junk.push(0xFFF0);
        if let Some(&old) = used.iter().find(|i| !in_flight.contains(i)) {
            junk.push(old);
        }
        let mut bytes = Vec::new();
        for j in junk {
            if in_flight.contains(&j) {
                continue;
            }
            bytes.extend_from_slice(&j.to_le_bytes());
        }
        self.server
            .world_mut()
            .resource_mut::<RepliconServer>()
            .insert_received(conn, 0usize, bytes);
    }

    pub fn server_running(&self) -> bool {
        self.server.world().resource::<RepliconServer>().is_running()
    }

    /// C02 oracle: every mapped entity's continuously replicated components equal the server's
    /// snapshot at the entity's confirmed tick, and the confirmed tick never decreases.
    pub fn check_confirmed(&mut self, c: usize, view: &ClientView) -> Result<(), Violation> {
        for (e, ce) in &view.ents {
            let Some(t) = ce.last_tick else { continue };
            // An entity one of whose values the client's own deserialization function refused
            // is in a state the property does not describe (only its neighbours are judged).
            if self.cfg.with_f && self.server.world().get_entity(Entity::from_bits(*e)).is_ok_and(|r| r.contains::<F>()) {
                continue;
            }
            let key = (c, ce.client_bits);
            if let Some(&prev) = self.prev_confirmed.get(&key) {
                if tick_older(t, prev) {
                    return Err(Violation::new(
                        "",
                        "confirmed-tick-decreased",
                        format!(
                            "client c{c} entity {}: confirmed tick {prev} -> {t}",
                            fmt_bits(*e)
                        ),
                    ));
                }
            }
            self.prev_confirmed.insert(key, t);
            let Some(snap) = self.snaps.get(&t) else {
                return Err(Violation::new(
                    "",
                    "unknown-confirmed-tick",
                    format!(
                        "client c{c} entity {}: confirmed tick {t} was never a server tick",
                        fmt_bits(*e)
                    ),
                ));
            };
            let server = snap.get(e);
            if let Some(val) = ce.comps.get(&TO) {
                // a send-once component holds the value of the last full send at or before the confirmed tick
                if let Some(sent) = self.once_sent.get(&(c, *e)) {
                    if let Some((ft, fv)) = sent.iter().rev().find(|(ft, _)| *ft <= t) {
                        if fv != val {
                            return Err(Violation::new(
                                "",
                                "once-value-mismatch",
                                format!(
                                    "client c{c} entity {} confirmed tick {t}: the send-once component is {} on the client, but it was last sent in full at tick {ft} with {}",
                                    fmt_bits(*e),
                                    val.show(),
                                    fv.show()
                                ),
                            )
                            .feat("comp:O"));
                        }
                    }
                }
            }
            for (tag, val) in &ce.comps {
                if *tag == TP || *tag == TO {
                    continue;
                }
                let sv = server.and_then(|s| s.get(tag));
                if sv != Some(val) {
                    return Err(Violation::new(
                        "",
                        "value-mismatch",
                        format!(
                            "client c{c} entity {} confirmed tick {t}: {} is {} on the client, the server had {} at that tick",
                            fmt_bits(*e),
                            ctag_name(*tag),
                            val.show(),
                            sv.map(|v| v.show()).unwrap_or("nothing".into())
                        ),
                    )
                    .feat(format!("comp:{}", ctag_name(*tag))));
                }
            }
            if let Some(s) = server {
                for tag in s.keys() {
                    if *tag == TP || *tag == TO {
                        continue;
                    }
                    if !ce.comps.contains_key(tag) {
                        return Err(Violation::new(
                            "",
                            "missing-component",
                            format!(
                                "client c{c} entity {} confirmed tick {t}: the server had {} at that tick, the client has none",
                                fmt_bits(*e),
                                ctag_name(*tag)
                            ),
                        )
                        .feat(format!("comp:{}", ctag_name(*tag))));
                    }
                }
            }
        }
        Ok(())
    }

    /// Convergence oracle (C01): client `c`'s view equals the visible replicated server state.
    /// The violation's property is left empty (the calling cell owns it).
    pub fn converged(
        &self,
        c: usize,
        server: &Snap,
        view: &ClientView,
        allow_orphans: bool,
    ) -> Result<(), Violation> {
        let expected: BTreeMap<u64, &Comps> = server
            .iter()
            .filter(|(e, _)| self.visible_now(c, **e))
            .map(|(e, comps)| (*e, comps))
            .collect();
        for (e, comps) in &expected {
            let Some(ce) = view.ents.get(e) else {
                return Err(Violation::new(
                    "",
                    "missing-entity",
                    format!(
                        "after closure client c{c} lacks server entity {} {}; client view: {}",
                        fmt_bits(*e),
                        show_comps(comps),
                        view.show()
                    ),
                )
                .feat("kind:missing-entity"));
            };
            if !ce.marked {
                return Err(Violation::new(
                    "",
                    "unmarked-entity",
                    format!(
                        "after closure client c{c} entity for {} has no Replicated marker",
                        fmt_bits(*e)
                    ),
                ));
            }
            let skeys: BTreeSet<u8> = comps.keys().copied().collect();
            let ckeys: BTreeSet<u8> = ce.comps.keys().copied().collect();
            if skeys != ckeys {
                let diff: Vec<_> = skeys
                    .symmetric_difference(&ckeys)
                    .map(|t| ctag_name(*t))
                    .collect();
                return Err(Violation::new(
                    "",
                    "component-set-mismatch",
                    format!(
                        "after closure entity {}: server has {} client c{c} has {}",
                        fmt_bits(*e),
                        show_comps(comps),
                        show_comps(&ce.comps)
                    ),
                )
                .feat(format!("comp:{}", diff.join("+"))));
            }
            for (tag, sv) in comps.iter() {
                if *tag == TO {
                    continue;
                }
                if ce.comps.get(tag) != Some(sv) {
                    return Err(Violation::new(
                        "",
                        "value-mismatch",
                        format!(
                            "after closure entity {} {}: server {} client c{c} {}",
                            fmt_bits(*e),
                            ctag_name(*tag),
                            sv.show(),
                            ce.comps[tag].show()
                        ),
                    )
                    .feat(format!("comp:{}", ctag_name(*tag))));
                }
            }
        }
        let premapped: BTreeSet<u64> = self
            .prespawned
            .iter()
            .filter(|(k, _)| k.0 == c)
            .map(|(_, e)| e.to_bits())
            .collect();
        for (e, ce) in view.ents.iter() {
            // A pre-spawned entity whose mapping arrived ahead of the (not yet replicated or
            // not yet visible) server entity is held by design.
            if !expected.contains_key(e) && premapped.contains(&ce.client_bits) && !server.contains_key(e) {
                continue;
            }
            if !expected.contains_key(e) && premapped.contains(&ce.client_bits) && !self.visible_now(c, *e) {
                continue;
            }
            if !expected.contains_key(e) {
                return Err(Violation::new(
                    "",
                    "extra-entity",
                    format!(
                        "after closure client c{c} still holds {} which is not a visible replicated server entity; server: {} client: {}",
                        fmt_bits(*e),
                        show_snap(server),
                        view.show()
                    ),
                )
                .feat("kind:extra-entity"));
            }
        }
        if !view.dead_mapped.is_empty() {
            return Err(Violation::new(
                "",
                "dead-mapped-entity",
                format!(
                    "after closure client c{c} maps {:?} to dead entities",
                    view.dead_mapped
                ),
            ));
        }
        if !allow_orphans && !view.unmapped_replicated.is_empty() {
            return Err(Violation::new(
                "",
                "extra-entity",
                format!(
                    "after closure client c{c} holds {} replicated entities outside the entity map",
                    view.unmapped_replicated.len()
                ),
            )
            .feat("kind:unmapped"));
        }
        Ok(())
    }

    pub fn in_flight_digest(&self) -> u64 {
        let mut h = std::collections::hash_map::DefaultHasher::new();
        for (c, cl) in self.clients.iter().enumerate() {
            for (ch, q) in cl.s2c.iter().enumerate() {
                for m in q {
                    (c, ch, 0u8, &m.bytes[..]).hash(&mut h);
                }
            }
            for (ch, q) in cl.c2s.iter().enumerate() {
                for m in q {
                    (c, ch, 1u8, &m.bytes[..]).hash(&mut h);
                }
            }
        }
        h.finish()
    }

    pub fn reliable(kind: Channel) -> bool {
        !matches!(kind, Channel::Unreliable)
    }
}

fn set_or_insert<C: Component<Mutability = bevy::ecs::component::Mutable>>(
    em: &mut EntityWorldMut,
    mutate: bool,
    value: C,
) {
    if mutate {
        *em.get_mut::<C>().expect("component to mutate") = value;
    } else {
        em.insert(value);
    }
}

pub fn short_loc(loc: &str) -> String {
    // keep `src/...:line` of repo files, crate name otherwise
    if let Some(i) = loc.find("/repo/") {
        loc[i + 6..].to_string()
    } else if let Some(i) = loc.rfind("/registry/src/") {
        let rest = &loc[i + 14..];
        rest.split_once('/').map(|x| x.1).unwrap_or(rest).to_string()
    } else {
        loc.to_string()
    }
}

#[derive(Clone, Debug, Default, PartialEq, Eq, Hash)]
pub struct CEnt {
    pub comps: Comps,
    pub marked: bool,
    pub last_tick: Option<u32>,
    pub client_bits: u64,
}

#[derive(Clone, Debug, Default, PartialEq, Eq, Hash)]
pub struct ClientView {
    /// server entity bits -> client entity state (only live mapped entities)
    pub ents: BTreeMap<u64, CEnt>,
    pub update_tick: u32,
    /// mapped server entities whose client entity is dead
    pub dead_mapped: Vec<u64>,
    /// client entities carrying `Replicated` that are not in the map
    pub unmapped_replicated: Vec<u64>,
    pub map_inconsistent: Vec<String>,
}

impl ClientView {
    pub fn structure(&self) -> BTreeMap<u64, (BTreeSet<u8>, bool)> {
        self.ents
            .iter()
            .map(|(e, c)| (*e, (c.comps.keys().copied().collect(), c.marked)))
            .collect()
    }
    pub fn show(&self) -> String {
        let parts: Vec<String> = self
            .ents
            .iter()
            .map(|(e, c)| {
                format!(
                    "{}:{}{}@{}",
                    fmt_bits(*e),
                    show_comps(&c.comps),
                    if c.marked { "" } else { "!unmarked" },
                    c.last_tick.map(|t| t.to_string()).unwrap_or("-".into())
                )
            })
            .collect();
        format!("upd{} [{}]", self.update_tick, parts.join(" "))
    }
}


/// Pairs of systems of one schedule of the server App that have conflicting data access and no
/// ordering between them (names, number of conflicting items).
pub fn ambiguities(cfg: &Cfg, label: bevy::ecs::schedule::InternedScheduleLabel) -> Vec<((String, String), usize)> {
    let mut app = build_app(cfg);
    let mut out = Vec::new();
    let world = app.world_mut();
    let mut schedule = world.resource_mut::<Schedules>().remove(label).expect("schedule exists");
    schedule.set_build_settings(bevy::ecs::schedule::ScheduleBuildSettings {
        ambiguity_detection: bevy::ecs::schedule::LogLevel::Warn,
        ..Default::default()
    });
    schedule.initialize(world).expect("schedule builds");
    let names: std::collections::HashMap<_, _> = schedule
        .systems()
        .expect("schedule is initialized")
        .map(|(id, s)| (id, s.name().to_string()))
        .collect();
    for (a, b, conflicts) in schedule.graph().conflicting_systems() {
        out.push(((names[a].clone(), names[b].clone()), conflicts.len()));
    }
    world.resource_mut::<Schedules>().insert(schedule);
    out.sort();
    out
}
