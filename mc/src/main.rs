mod bytes;
mod cells;
mod check;
mod events;
mod explore;
mod props;
mod repl;
mod sim;

use std::time::Instant;

use check::{Outcome, Tier};

#[global_allocator]
static GLOBAL: bytes::Recorder = bytes::Recorder;

fn usage() -> ! {
    eprintln!("usage: rmc check <C01..C18> --tier quick|thorough [--budget <s>] | rmc replay <file>");
    std::process::exit(2);
}

fn main() {
    sim::install_panic_hook();
    let args: Vec<String> = std::env::args().collect();
    if args.len() < 3 {
        usage();
    }
    match args[1].as_str() {
        "check" => {
            let prop = args[2].clone();
            let mut tier = match std::env::var("VERIF_TIER").as_deref() {
                Ok("thorough") => Tier::Thorough,
                _ => Tier::Quick,
            };
            let mut budget: Option<f64> = None;
            let mut i = 3;
            while i < args.len() {
                match args[i].as_str() {
                    "--tier" => {
                        tier = if args[i + 1] == "thorough" { Tier::Thorough } else { Tier::Quick };
                        i += 1;
                    }
                    "--budget" => {
                        budget = Some(args[i + 1].parse().unwrap());
                        i += 1;
                    }
                    _ => usage(),
                }
                i += 1;
            }
            let seed: u64 = std::env::var("VERIF_SEED").ok().and_then(|s| s.parse().ok()).unwrap_or(0);
            let budget = budget.unwrap_or(if tier.quick() { 120.0 } else { 900.0 });
            let t0 = Instant::now();
            // stale replay files of earlier runs must not be mistaken for results of this one
            let _ = std::fs::remove_dir_all(std::path::Path::new(&check::verif_root()).join("replays").join(&prop));
            let mut out = Outcome::new(&prop, tier, seed);
            let r = props::run(&prop, tier, budget, &mut out);
            if let Err(e) = r {
                eprintln!("machinery error: {}", e.0);
                std::process::exit(2);
            }
            check::write_evidence(&out, t0.elapsed().as_secs_f64());
            std::process::exit(check::verdict(&out));
        }
        "c14-hashes" => {
            std::process::exit(props::c14::print_hashes(args[2].parse().unwrap()));
        }
        "c06-worker" => {
            std::process::exit(props::c06::worker(&args[2]));
        }
        "ambig" => {
            let _ = std::panic::take_hook();
            rmc_ambig();
        }
        "replay" => {
            let code = props::replay(&args[2]);
            std::process::exit(code);
        }
        _ => usage(),
    }
}


/// Lists the pairs of library systems with conflicting access that the schedules leave unordered.
fn rmc_ambig() {
    use bevy::{ecs::schedule::ScheduleLabel, prelude::*};
    let mut cfg = sim::Cfg::default();
    cfg.events = true;
    cfg.tick = sim::TickWiring::MaxTickRate(30);
    for (choice, desc) in sim::order_choices(&cfg) {
        println!("feasible order choice {choice:?}: {desc}");
    }
    for (label, name) in [(PreUpdate.intern(), "PreUpdate"), (PostUpdate.intern(), "PostUpdate")] {
        for (pair, n) in sim::ambiguities(&cfg, label) {
            println!("{name}: {} <-> {} ({n} conflicts)", pair.0, pair.1);
        }
    }
}
