//! Running the cells of one property, classifying violations against the committed
//! known-findings file, writing replay artefacts and the evidence file.

use std::{
    collections::BTreeSet,
    path::{Path, PathBuf},
    time::Instant,
};

use serde::{Deserialize, Serialize};
use serde_json::json;

use crate::explore::{Bounds, DynCell, MachineryError, Report, RunOut, deadline_in};

/// Root of the verification tree (`/verif`); a scratch copy of the machinery may point it elsewhere.
pub fn verif_root() -> String {
    std::env::var("VERIF_ROOT").unwrap_or_else(|_| "/verif".to_string())
}

#[derive(Clone, Copy, Debug, PartialEq, Eq)]
pub enum Tier {
    Quick,
    Thorough,
}

impl Tier {
    pub fn name(self) -> &'static str {
        match self {
            Tier::Quick => "quick",
            Tier::Thorough => "thorough",
        }
    }
    pub fn quick(self) -> bool {
        self == Tier::Quick
    }
}

pub struct CellPlan {
    pub cell: Box<dyn DynCell>,
    pub max_dev: u32,
    /// Relative share of the time budget.
    pub weight: f64,
}

pub fn plan(cell: impl DynCell + 'static, max_dev: u32, weight: f64) -> CellPlan {
    CellPlan {
        cell: Box::new(cell),
        max_dev,
        weight,
    }
}

#[derive(Clone, Debug, Deserialize, Serialize)]
pub struct Finding {
    /// `known` (suppresses a matching violation, prints KNOWN-FINDING) or `fixed` (suppresses nothing).
    pub status: String,
    pub property: String,
    #[serde(default)]
    pub oracle: String,
    /// Every listed feature must be among the features of the shrunk trace (oracle features,
    /// `choice:` / `opkind:` features of its non-default choices, `cellkind:`).
    #[serde(default)]
    pub features: Vec<String>,
    /// At least one of these must be present as well (if non-empty).
    #[serde(default)]
    pub any_of: Vec<String>,
    /// ... and at least one of these (if non-empty).
    #[serde(default)]
    pub any_of2: Vec<String>,
    #[serde(default)]
    pub commit: String,
    pub what: String,
}

#[derive(Clone, Debug, Deserialize, Serialize, Default)]
pub struct Findings {
    pub findings: Vec<Finding>,
}

pub fn load_findings() -> Findings {
    let p = Path::new(&verif_root()).join("known_findings.json");
    match std::fs::read_to_string(&p) {
        Ok(s) => serde_json::from_str(&s).unwrap_or_else(|e| {
            eprintln!("machinery error: {} is not valid: {e}", p.display());
            std::process::exit(2);
        }),
        Err(_) => Findings::default(),
    }
}

#[derive(Default)]
pub struct Outcome {
    pub property: String,
    pub tier: String,
    pub seed: u64,
    pub reports: Vec<serde_json::Value>,
    pub evaluations: u64,
    pub transitions: u64,
    pub states: u64,
    pub distinct_outcomes: u64,
    pub nontrivial: u64,
    pub distinct_nontrivial: u64,
    pub determinism_replays: u64,
    pub samples: Vec<serde_json::Value>,
    pub exhaustive: bool,
    pub new_violations: Vec<PathBuf>,
    pub known_hits: Vec<String>,
    pub violation_total: u64,
    pub rule: String,
    pub assumptions: Vec<String>,
    pub extra: serde_json::Map<String, serde_json::Value>,
    pub regressions_replayed: u64,
}

impl Outcome {
    pub fn new(property: &str, tier: Tier, seed: u64) -> Self {
        Self {
            property: property.into(),
            tier: tier.name().into(),
            seed,
            exhaustive: true,
            ..Default::default()
        }
    }
}

/// Features of the shrunk trace: every non-default choice as `choice:<label>:<alternative>`.
pub fn trace_features(out: &RunOut) -> BTreeSet<String> {
    let mut f = BTreeSet::new();
    for (i, cp) in out.points.iter().enumerate() {
        let a = out.choices[i] as usize;
        if a != 0 || cp.label == "op" {
            let alt = &cp.alts[a];
            if alt != "nop" {
                f.insert(format!("choice:{}:{}", cp.label, alt));
            }
        }
    }
    f
}

pub fn matches_known(f: &Finding, property: &str, oracle: &str, feats: &BTreeSet<String>) -> bool {
    f.status == "known"
        && f.property == property
        && (f.oracle.is_empty() || f.oracle == oracle)
        && f.features.iter().all(|x| feats.contains(x))
        && (f.any_of.is_empty() || f.any_of.iter().any(|x| feats.contains(x)))
        && (f.any_of2.is_empty() || f.any_of2.iter().any(|x| feats.contains(x)))
}

/// Explores all cells of a property within the time budget and classifies what was found.
pub fn run_cells(
    out: &mut Outcome,
    plans: Vec<CellPlan>,
    budget_s: f64,
    _max_shrink_per_cell: usize,
) -> Result<(), MachineryError> {
    let findings = load_findings();
    let t0 = Instant::now();
    let total_weight: f64 = plans.iter().map(|p| p.weight).sum();
    let mut weight_left = total_weight;
    for p in plans {
        let remaining = (budget_s - t0.elapsed().as_secs_f64()).max(1.0);
        // Quick cells are sized to run to completion: the budget is a cap on the whole run, not
        // a per-cell share (a share would cap a cell on a busy machine although time is left).
        let share = if out.tier == "quick" { remaining } else { remaining * p.weight / weight_left.max(1e-9) };
        weight_left -= p.weight;
        let b = Bounds {
            max_dev: p.max_dev,
            deadline: deadline_in(share),
            max_violations: 2000,
            seed: out.seed,
        };
        let rep = p.cell.explore_dyn(&b)?;
        absorb(out, &rep);
        if rep.violation_count > 0 {
            classify(out, p.cell.as_ref(), &rep, &findings, (share * 0.5).max(5.0))?;
        }
    }
    Ok(())
}

pub fn absorb(out: &mut Outcome, rep: &Report) {
    out.evaluations += rep.executions;
    out.transitions += rep.transitions;
    out.states += rep.states;
    out.distinct_outcomes += rep.outcomes;
    out.nontrivial += rep.nontrivial;
    out.distinct_nontrivial += rep.distinct_nontrivial;
    out.determinism_replays += rep.determinism_replays;
    out.violation_total += rep.violation_count;
    if rep.capped {
        out.exhaustive = false;
    }
    if out.samples.len() < 4 {
        out.samples.extend(rep.samples.iter().take(2).cloned());
    }
    let vacuous = rep.executions > 0 && rep.nontrivial == 0;
    if vacuous {
        eprintln!("warning: cell {} is vacuous (no non-trivial execution)", rep.cell);
    }
    out.reports.push(json!({
        "cell": rep.cell,
        "config": rep.cell_cfg,
        "executions": rep.executions,
        "transitions": rep.transitions,
        "states": rep.states,
        "distinct_outcomes": rep.outcomes,
        "nontrivial_executions": rep.nontrivial,
        "distinct_nontrivial": rep.distinct_nontrivial,
        "max_choice_points": rep.max_choice_points,
        "deviation_bound_attempted": rep.attempted_dev,
        "deviation_bound_completed": rep.completed_dev,
        "capped_by_wall_clock": rep.capped,
        "exhaustive_within_bound": !rep.capped,
        "determinism_replays": rep.determinism_replays,
        "violating_executions": rep.violation_count,
        "vacuous": vacuous,
        "wall_s": rep.wall_s,
    }));
    eprintln!(
        "  cell {:<28} exec {:>8} trans {:>9} states {:>8} outcomes {:>6} nontrivial {:>8} dev<= {:?}{} viol {} ({:.1}s)",
        rep.cell,
        rep.executions,
        rep.transitions,
        rep.states,
        rep.outcomes,
        rep.nontrivial,
        rep.completed_dev,
        if rep.capped { " CAPPED" } else { "" },
        rep.violation_count,
        rep.wall_s
    );
}

fn generalize(s: &str) -> String {
    // "clear parent of e2" -> "clear parent of e#", "vis(c0,e1,false)" -> "vis(c#,e#,false)"
    let b: Vec<char> = s.chars().collect();
    let mut out = String::new();
    let mut i = 0;
    while i < b.len() {
        let prev_alnum = i > 0 && b[i - 1].is_alphanumeric();
        if (b[i] == 'e' || b[i] == 'c') && !prev_alnum && i + 1 < b.len() && b[i + 1].is_ascii_digit() {
            out.push(b[i]);
            out.push('#');
            i += 1;
            while i < b.len() && b[i].is_ascii_digit() {
                i += 1;
            }
        } else {
            out.push(b[i]);
            i += 1;
        }
    }
    out
}

/// Features of a (shrunk) trace: every non-default choice as `choice:<label>:<alternative>`,
/// its entity-agnostic form `opkind:<...>` for operations, and the cell kind.
pub fn all_features(cell_name: &str, out: &RunOut) -> BTreeSet<String> {
    let mut f = trace_features(out);
    let kinds: Vec<String> = f
        .iter()
        .filter_map(|x| x.strip_prefix("choice:op:").map(|k| format!("opkind:{}", generalize(k))))
        .collect();
    f.extend(kinds);
    if let Some((_, kind)) = cell_name.split_once('-') {
        f.insert(format!("cellkind:{kind}"));
    }
    if let Some(v) = &out.violation {
        f.extend(v.features.iter().cloned());
    }
    f
}

fn classify(
    out: &mut Outcome,
    cell: &dyn DynCell,
    rep: &Report,
    findings: &Findings,
    shrink_budget_s: f64,
) -> Result<(), MachineryError> {
    // Every recorded violating execution is shrunk and classified on its own shrunk trace
    // (cheapest first), within a time budget; what could not be classified is counted.
    let t0 = Instant::now();
    let mut seen_sigs: BTreeSet<String> = BTreeSet::new();
    let mut seen_raw: BTreeSet<Vec<u16>> = BTreeSet::new();
    let mut new_here = 0usize;
    let mut unclassified = rep.violation_count.saturating_sub(rep.violations.len() as u64);
    for fv in &rep.violations {
        if fv.violation.property != out.property {
            // An oracle of another property fired in a cell of this one: configuration error.
            return Err(MachineryError(format!(
                "cell {} of {} raised a {} violation",
                cell.cell_name(),
                out.property,
                fv.violation.property
            )));
        }
        if new_here >= 4 || t0.elapsed().as_secs_f64() > shrink_budget_s {
            unclassified += 1;
            continue;
        }
        let small = cell.shrink_dyn(fv.choices.clone(), &fv.violation.property, &fv.violation.oracle);
        if !seen_raw.insert(small.clone()) {
            continue;
        }
        let run = cell.replay_dyn(&small)?;
        let Some(v) = &run.violation else {
            return Err(MachineryError(format!(
                "shrunk trace {small:?} of cell {} does not fail on replay",
                cell.cell_name()
            )));
        };
        let feats = all_features(&cell.cell_name(), &run);
        let sig = format!("{}|{}|{:?}", v.property, v.oracle, feats);
        if !seen_sigs.insert(sig) {
            continue;
        }
        if let Some(k) = findings
            .findings
            .iter()
            .find(|f| matches_known(f, &v.property, &v.oracle, &feats))
        {
            let line = format!("KNOWN-FINDING: property={} {}", v.property, k.what);
            if !out.known_hits.contains(&line) {
                out.known_hits.push(line);
            }
            continue;
        }
        let path = write_replay(&out.property, cell, &run, &feats)?;
        out.new_violations.push(path);
        new_here += 1;
    }
    if unclassified > 0 {
        eprintln!(
            "note: {unclassified} violating executions of cell {} were not individually classified (budget)",
            cell.cell_name()
        );
    }
    let prev = out.extra.get("unclassified_violating_executions").and_then(|v| v.as_u64()).unwrap_or(0);
    out.extra.insert("unclassified_violating_executions".into(), json!(prev + unclassified));
    Ok(())
}

pub fn write_replay(
    property: &str,
    cell: &dyn DynCell,
    run: &RunOut,
    feats: &BTreeSet<String>,
) -> Result<PathBuf, MachineryError> {
    let v = run.violation.as_ref().unwrap();
    let dir = Path::new(&verif_root()).join("replays").join(property);
    std::fs::create_dir_all(&dir).map_err(|e| MachineryError(e.to_string()))?;
    let h = crate::explore::hash_of(&(cell.cell_name(), &run.choices, &v.oracle));
    let path = dir.join(format!("{:016x}.json", h));
    let doc = json!({
        "property": property,
        "cell": cell.cell_name(),
        "cell_config": cell.cell_cfg(),
        "choices": run.choices,
        "choice_labels": run.points.iter().zip(&run.choices).map(|(p, c)| format!("{}={}", p.label, p.alts[*c as usize])).collect::<Vec<_>>(),
        "violation": {"property": v.property, "oracle": v.oracle, "detail": v.detail, "features": feats},
        "steps": run.summary.steps,
    });
    std::fs::write(&path, serde_json::to_string_pretty(&doc).unwrap())
        .map_err(|e| MachineryError(e.to_string()))?;
    Ok(path)
}

pub fn write_evidence(out: &Outcome, wall_s: f64) {
    let dir = Path::new(&verif_root()).join("evidence");
    let _ = std::fs::create_dir_all(&dir);
    let mut coverage = serde_json::Map::new();
    coverage.insert("evaluations".into(), json!(out.evaluations));
    coverage.insert("distinct_nontrivial".into(), json!(out.distinct_nontrivial));
    coverage.insert("nontrivial_evaluations".into(), json!(out.nontrivial));
    coverage.insert("rule".into(), json!(out.rule));
    coverage.insert("states".into(), json!(out.states.max(1)));
    coverage.insert("transitions".into(), json!(out.transitions.max(1)));
    coverage.insert(
        "traces_validated_against_impl".into(),
        json!(out.evaluations + out.determinism_replays),
    );
    coverage.insert("determinism_replays".into(), json!(out.determinism_replays));
    coverage.insert("regression_replays".into(), json!(out.regressions_replayed));
    coverage.insert("distinct_outcomes".into(), json!(out.distinct_outcomes));
    coverage.insert("exhaustive".into(), json!(out.exhaustive));
    coverage.insert("samples".into(), json!(out.samples));
    coverage.insert("cells".into(), json!(out.reports));
    coverage.insert("known_findings_hit".into(), json!(out.known_hits));
    for (k, v) in &out.extra {
        coverage.insert(k.clone(), v.clone());
    }
    let doc = json!({
        "property_id": out.property,
        "tier": out.tier,
        "seed": out.seed,
        "level": "model_checking",
        "coverage": coverage,
        "assumptions": out.assumptions,
        "wall_s": wall_s,
        "violations": out.new_violations.len(),
    });
    let path = dir.join(format!("{}.json", out.property));
    std::fs::write(&path, serde_json::to_string_pretty(&doc).unwrap()).expect("write evidence");
}

/// Prints the verdict lines and returns the process exit code.
pub fn verdict(out: &Outcome) -> i32 {
    for l in &out.known_hits {
        println!("{l}");
    }
    for p in &out.new_violations {
        println!("VIOLATION property={} replay={}", out.property, p.display());
    }
    if out.new_violations.is_empty() {
        println!(
            "OK property={} tier={} evaluations={} states={} transitions={} exhaustive={}",
            out.property, out.tier, out.evaluations, out.states, out.transitions, out.exhaustive
        );
        0
    } else {
        1
    }
}
