//! The replication scenario: histories of world operations x network schedules in normal form,
//! with the per-frame oracles of C02/C03/C08 and the closure oracle of C01.

use std::{
    collections::{BTreeMap, BTreeSet},
    hash::{Hash, Hasher},
};

use serde::Serialize;

use crate::{
    explore::{ChoicePoint, Scenario, Summary, Violation},
    sim::*,
};

#[derive(Clone, Copy, Debug, PartialEq, Eq, Serialize)]
pub enum MutMenu {
    /// Always deliver everything in sending order.
    Default,
    /// deliver all | hold all
    Hold,
    /// deliver all | hold all | newest only | oldest only | all reversed
    Full,
}

#[derive(Clone, Debug, Serialize)]
pub struct Env {
    /// Acks may be held back for a step.
    pub hold_acks: bool,
    /// Update messages: the last k (k <= this) in-flight messages may be held back for a step.
    pub hold_updates: usize,
    pub mutations: MutMenu,
    /// At the end, leftover unreliable messages are delivered late or dropped (both explored).
    pub leftover_choice: bool,
    /// Lossy link: mutate messages that are not delivered in a step are lost for good instead
    /// of staying in flight (so `oldest only` means "the rest is lost").
    pub lossy: bool,
}

impl Env {
    pub fn perfect() -> Self {
        Self {
            hold_acks: false,
            hold_updates: 0,
            mutations: MutMenu::Default,
            leftover_choice: false,
            lossy: false,
        }
    }
    pub fn full() -> Self {
        Self {
            hold_acks: true,
            hold_updates: 2,
            mutations: MutMenu::Full,
            leftover_choice: true,
            lossy: false,
        }
    }
}

#[derive(Clone, Debug, Serialize, Default)]
pub struct Oracles {
    pub c01: bool,
    pub c02: bool,
    pub c03: bool,
    pub c08: bool,
    pub c16: bool,
    /// C08: compare the last client's views with a twin execution without client 0's visibility calls.
    pub c08_twin: bool,
    /// C11: resend-until-acknowledged and silence at rest (`c11_no_resend`: also the "not re-sent" direction).
    pub c11: bool,
    pub c11_no_resend: bool,
    /// C11: only the rest oracle (three silent ticks after closure, then resumption): for
    /// histories with structural changes, where mutations also travel in update messages.
    pub c11_rest: bool,
    /// C10: all-or-nothing per entity / related group and message size limits.
    pub c10: bool,
    /// C12: MutateTickReceived fires exactly once, only when all messages of the tick were applied.
    pub c12: bool,
}

#[derive(Clone, Debug, Serialize)]
pub struct ReplCell {
    pub name: String,
    pub property: &'static str,
    pub cfg: Cfg,
    /// Operations applied before exploration starts; the system is then settled in lock-step.
    pub init: Vec<Op>,
    pub alphabet: Vec<Op>,
    pub ops_per_round: usize,
    pub rounds: usize,
    /// Explore tick / no-tick per round (manual wiring); otherwise every server frame ticks.
    pub tick_choice: bool,
    pub env: Env,
    pub oracles: Oracles,
    /// Number of lock-step closure rounds.
    pub closure_rounds: usize,
    /// Junk acknowledgement indices may be injected before a server frame.
    pub junk_acks: bool,
    /// One acknowledgement message may be delayed by two rounds for one deviation (a straggler),
    /// instead of paying one deviation per round.
    #[serde(default)]
    pub straggler_acks: bool,
    /// After the rounds: mutate everything, tick, and deliver every ordered subset of the
    /// resulting mutate messages first, the rest one frame later (C10, C12).
    pub split_stage: bool,
}

#[derive(Clone, Copy, Debug, PartialEq, Eq)]
enum Phase {
    Op(usize),
    Tick,
    Acks(usize),
    ServerFrame,
    Upd(usize),
    Mut(usize),
    ClientFrame(usize),
    Leftover,
    /// Final stage of the split-delivery cells (C10, C12): choose what reaches the client first.
    Split,
    Done,
}

pub struct ReplExec {
    /// A violation met during the set-up rounds; reported by `finish`.
    pub setup_violation: Option<Violation>,
    pub sim: Sim,
    /// (round in which it arrives, client, message)
    stragglers: Vec<(usize, usize, Msg)>,
    round: usize,
    phase: Phase,
    round_ops: Vec<Op>,
    round_tick: bool,
    line: String,
    /// (client, client entity bits) -> last confirmed tick seen
    prev_last_tick: BTreeMap<(usize, u64), u32>,
    prev_update_tick: Vec<Option<u32>>,
    states: Vec<u64>,
    pub structural_ops: u32,
    pub applied_ops: u32,
    pub mut_msgs_delivered: u32,
    pub mut_deviation: bool,
    pub upd_held: u32,
    outcome: u64,
    dropped_leftover: bool,
    /// Views of the last client after each of its frames (twin comparison).
    observed_views: Vec<ClientView>,
    /// C11: tick at which each (client, entity) was last sent in full (set-up / update message).
    pub c11_baseline: BTreeMap<(usize, u8), u32>,
    pub setup_done: bool,
    /// Split stage: ids of the mutate messages of the final tick and the versions written by it.
    pub split_msgs: Vec<u32>,
    pub split_tick: u32,
    pub split_versions: BTreeMap<(u8, u8), u8>,
    pub split_before: BTreeMap<(u8, u8), CV>,
}

const UPD: usize = 0;
const MUT: usize = 1;
const ACK: usize = 0;

impl ReplCell {
    pub fn clients(&self) -> usize {
        self.cfg.clients.len()
    }

    fn enabled_ops(&self, x: &ReplExec, slot: usize) -> Vec<Op> {
        // With two ops per round, (nop, X) is the same history as (X, nop): force nop after nop.
        if slot > 0 && x.round_ops.last() == Some(&Op::Nop) {
            return vec![Op::Nop];
        }
        self.alphabet
            .iter()
            .copied()
            .filter(|&op| x.sim.enabled(op))
            .collect()
    }

    fn upd_alts(&self, x: &ReplExec, c: usize) -> Vec<(String, u32)> {
        let n = x.sim.clients[c].s2c[UPD].len();
        let mut v = vec![("all".to_string(), 0)];
        for k in 1..=self.env.hold_updates.min(n) {
            v.push((format!("hold last {k} of {n}"), 1));
        }
        // The transport owes the update channel exactly what the library declares for it: if
        // the declared kind does not promise order, the messages may arrive in any order.
        if n >= 2 && x.sim.server_channels[UPD] != bevy_replicon::prelude::Channel::Ordered {
            v.push(("all, newest first".into(), 0));
        }
        v
    }

    fn mut_alts(&self, x: &ReplExec, c: usize) -> Vec<(String, u32)> {
        let n = x.sim.clients[c].s2c[MUT].len();
        let mut v = vec![("all".to_string(), 0)];
        if n == 0 {
            return v;
        }
        match self.env.mutations {
            MutMenu::Default => {}
            MutMenu::Hold => v.push(("hold".into(), 1)),
            MutMenu::Full => {
                v.push(("hold".into(), 1));
                if n >= 2 {
                    v.push(("newest only".into(), 1));
                    v.push(("oldest only".into(), 1));
                    v.push(("reversed".into(), 1));
                }
            }
        }
        v
    }

    fn mut_sel(&self, x: &ReplExec, c: usize, alt: usize) -> Sel {
        let n = x.sim.clients[c].s2c[MUT].len();
        match alt {
            0 => Sel::All,
            1 => Sel::None,
            2 => Sel::Indices(vec![n - 1]),
            3 => Sel::Indices(vec![0]),
            _ => Sel::Indices((0..n).rev().collect()),
        }
    }

    fn advance(&self, x: &mut ReplExec) {
        // Moves to the next phase that exists in this cell.
        loop {
            x.phase = match x.phase {
                Phase::Op(i) if i + 1 < self.ops_per_round => Phase::Op(i + 1),
                Phase::Op(_) => Phase::Tick,
                Phase::Tick => Phase::Acks(0),
                Phase::Acks(c) if c + 1 < self.clients() => Phase::Acks(c + 1),
                Phase::Acks(_) => Phase::ServerFrame,
                Phase::ServerFrame => Phase::Upd(0),
                Phase::Upd(c) => Phase::Mut(c),
                Phase::Mut(c) => Phase::ClientFrame(c),
                Phase::ClientFrame(c) if c + 1 < self.clients() => Phase::Upd(c + 1),
                Phase::ClientFrame(_) => {
                    x.round += 1;
                    if x.round < self.rounds {
                        Phase::Op(0)
                    } else {
                        Phase::Leftover
                    }
                }
                Phase::Leftover if self.split_stage => Phase::Split,
                Phase::Leftover | Phase::Split => Phase::Done,
                Phase::Done => Phase::Done,
            };
            match x.phase {
                Phase::Tick if !self.tick_choice => continue,
                _ => break,
            }
        }
    }

    /// Every violation raised inside a cell is reported under the cell's own property; the
    /// oracle identifier says which oracle fired.
    pub fn v(&self, _oracle_family: &str, oracle: &str, detail: String) -> Violation {
        Violation::new(self.property, oracle, detail)
    }

    /// Per-frame oracles for client `c` (C02, C03, C08-visibility-query).
    pub fn check_client(&self, x: &mut ReplExec, c: usize) -> Result<(), Violation> {
        let view = x.sim.client_view(c);
        let mut h = std::collections::hash_map::DefaultHasher::new();
        view.hash(&mut h);
        h.finish().hash(&mut x.sim.trace);

        if self.oracles.c03 {
            let t = view.update_tick;
            if let Some(prev) = x.prev_update_tick[c].filter(|&p| tick_older(t, p)) {
                return Err(self.v(
                    "C03",
                    "update-tick-decreased",
                    format!("client c{c}: update tick went from {prev} to {t}"),
                ));
            }
            // the client's initial update tick (0) is a default, not a server tick
            if t != 0 || x.prev_update_tick[c].is_some() {
                x.prev_update_tick[c] = Some(t);
            }
            let Some(snap) = x.sim.snaps.get(&t) else {
                return Err(self.v(
                    "C03",
                    "unknown-update-tick",
                    format!("client c{c} reports update tick {t} which was never a server tick"),
                ));
            };
            let vis = &x.sim.vis_snaps[&t][c];
            let expected: BTreeMap<u64, (BTreeSet<u8>, bool)> = snap
                .iter()
                .filter(|(e, _)| vis.contains(e))
                .map(|(e, comps)| (*e, (comps.keys().copied().collect(), true)))
                .collect();
            let got = view.structure();
            if got != expected {
                let mut f = Vec::new();
                for (e, (cs, marked)) in &got {
                    match expected.get(e) {
                        None => f.push(format!("extra:{}", fmt_bits(*e))),
                        Some((ecs, _)) => {
                            if ecs != cs {
                                f.push(format!("comps:{}", fmt_bits(*e)));
                            }
                            if !marked {
                                f.push(format!("unmarked:{}", fmt_bits(*e)));
                            }
                        }
                    }
                }
                for e in expected.keys() {
                    if !got.contains_key(e) {
                        f.push(format!("missing:{}", fmt_bits(*e)));
                    }
                }
                let kind = f
                    .first()
                    .map(|s| s.split(':').next().unwrap().to_string())
                    .unwrap_or_default();
                let mut v = self.v(
                    "C03",
                    "structure-mismatch",
                    format!(
                        "client c{c} at update tick {t}: has {} but the server had replicated {} to it ({})",
                        show_struct(&got),
                        show_struct(&expected),
                        f.join(" ")
                    ),
                );
                v = v.feat(format!("kind:{kind}"));
                return Err(v);
            }
            if !view.dead_mapped.is_empty() {
                return Err(self.v(
                    "C03",
                    "dead-mapped-entity",
                    format!("client c{c}: map holds dead client entities for {:?}", view.dead_mapped),
                ));
            }
            if !view.map_inconsistent.is_empty() {
                return Err(self.v(
                    "C03",
                    "map-inconsistent",
                    format!("client c{c}: {:?}", view.map_inconsistent),
                ));
            }
            if !view.unmapped_replicated.is_empty() {
                return Err(self.v(
                    "C03",
                    "unmapped-replicated-entity",
                    format!(
                        "client c{c}: {} entities carry the replication marker but are not in the entity map",
                        view.unmapped_replicated.len()
                    ),
                ));
            }
        }

        if self.oracles.c02 {
            x.sim.check_confirmed(c, &view).map_err(|v| self.own(v))?;
        }

        if self.oracles.c16 {
            crate::props::c16::check_frame(self, x, c, &view)?;
        }
        if self.oracles.c12 && self.cfg.hist {
            x.sim.check_history(c, &view).map_err(|v| self.own(v))?;
        }
        if self.oracles.c12 && x.setup_done && self.cfg.tick_offset == 0 {
            x.sim.check_mutate_ticks(c, &view).map_err(|v| self.own(v))?;
        }
        if self.oracles.c08_twin && c + 1 == self.clients() {
            x.observed_views.push(view.clone());
        }

        let mut sh = std::collections::hash_map::DefaultHasher::new();
        (x.sim.server_tick(), x.sim.in_flight_digest()).hash(&mut sh);
        view.hash(&mut sh);
        c.hash(&mut sh);
        x.states.push(sh.finish());
        Ok(())
    }

    /// C08: the visibility query must report the most recent setting of every live entity.
    fn check_visibility_query(&self, x: &mut ReplExec) -> Result<(), Violation> {
        use bevy_replicon::prelude::ClientVisibility;
        if !self.oracles.c08 || self.cfg.vis == Vis::All {
            return Ok(());
        }
        for c in 0..self.clients() {
            let Some(conn) = x.sim.clients[c].conn else { continue };
            for slot in 0..x.sim.ents.len() as u8 {
                let Some(e) = x.sim.alive(slot) else { continue };
                let Some(v) = x.sim.server.world().get::<ClientVisibility>(conn) else {
                    continue;
                };
                let got = v.is_visible(e);
                let want = x.sim.visible_now(c, e.to_bits());
                if got != want {
                    return Err(self
                        .v(
                            "C08",
                            "visibility-query",
                            format!(
                                "is_visible(c{c}, e{}) = {got}, but the most recent setting is {want}",
                                slot + 1
                            ),
                        )
                        .feat(format!("want:{want}")));
                }
            }
        }
        Ok(())
    }

    /// C08: no message to `c` sent by the last server frame may contain a payload of an entity
    /// hidden from `c` at that moment.
    fn check_wire_hidden(&self, x: &mut ReplExec) -> Result<(), Violation> {
        if !self.oracles.c08 || self.cfg.vis == Vis::All {
            return Ok(());
        }
        let frame = x.sim.server_frames;
        for w in x.sim.wire.iter().rev() {
            if w.server_frame != frame {
                break;
            }
            if w.channel > MUT {
                continue;
            }
            for slot in 0..x.sim.ents.len() as u8 {
                let Some(e) = x.sim.ent(slot) else { continue };
                // A despawned entity's data is not live state; visibility of dead entities is
                // not defined by the property.
                if x.sim.alive(slot).is_none() {
                    continue;
                }
                if x.sim.visible_now(w.client, e.to_bits()) {
                    continue;
                }
                let needle = [MAGIC, slot + 1];
                if w.bytes.windows(2).any(|p| p == needle) {
                    return Err(self
                        .v(
                            "C08",
                            "hidden-data-on-wire",
                            format!(
                                "message on channel {} to c{} at tick {} contains component data of e{} which is hidden from that client",
                                w.channel,
                                w.client,
                                w.tick,
                                slot + 1
                            ),
                        )
                        .feat(format!("channel:{}", w.channel)));
                }
            }
        }
        Ok(())
    }

    /// C08 "without affecting other clients": the last client's views must be identical to its
    /// views in the twin execution in which client 0's visibility calls never happened.
    fn twin_check(&self, x: &mut ReplExec) -> Result<(), Violation> {
        let observe = self.clients() - 1;
        let skip = |op: &Op| matches!(op, Op::Vis(0, _, _));
        let twin = Sim::run_twin(&self.cfg, &x.sim.actions, &skip, observe).map_err(|v| self.own(v))?;
        if twin.len() != x.observed_views.len() {
            return Err(self.v(
                "C08",
                "twin-length",
                format!("twin execution has {} frames of c{observe}, original {}", twin.len(), x.observed_views.len()),
            ));
        }
        for (i, (a, b)) in x.observed_views.iter().zip(&twin).enumerate() {
            if a != b {
                return Err(self.v(
                    "C08",
                    "other-client-affected",
                    format!(
                        "frame {i} of c{observe}: view {} differs from {} in the twin execution without c0's visibility calls",
                        a.show(),
                        b.show()
                    ),
                ));
            }
        }
        Ok(())
    }

    /// Wire-level oracles evaluated after every server frame.
    fn check_server_frame(&self, x: &mut ReplExec) -> Result<(), Violation> {
        if self.oracles.c11 && x.setup_done {
            if let Some((c, idx)) = x.sim.acks.spurious_acks.first() {
                return Err(self.v(
                    "C11",
                    "acknowledged-without-delivery",
                    format!("client c{c} acknowledged mutate message #{idx} which was never delivered to it"),
                ));
            }
            crate::props::c11::check_tick(self, x)?;
        }
        if self.oracles.c10 && x.setup_done {
            crate::props::c10::check_sizes(self, x)?;
        }
        Ok(())
    }

    pub fn lockstep_round(&self, x: &mut ReplExec, tick: bool) -> Result<(), Violation> {
        for c in 0..self.clients() {
            for ch in 0..x.sim.client_channels.len() {
                x.sim.deliver_to_server(c, ch, &Sel::All);
            }
        }
        x.sim.server_frame(tick).map_err(|v| self.own(v))?;
        self.check_wire_hidden(x)?;
        self.check_server_frame(x)?;
        for c in 0..self.clients() {
            for ch in 0..x.sim.server_channels.len() {
                x.sim.deliver_to_client(c, ch, &Sel::All);
            }
            x.sim.client_frame(c).map_err(|v| self.own(v))?;
            self.check_client(x, c)?;
        }
        Ok(())
    }

    /// A library panic is reported under the property being checked.
    pub fn own(&self, mut v: Violation) -> Violation {
        if v.property.is_empty() {
            v.property = self.property.to_string();
        }
        v
    }

    fn final_check(&self, x: &mut ReplExec) -> Result<(), Violation> {
        let server = x.sim.server_snap();
        let mut oh = std::collections::hash_map::DefaultHasher::new();
        server.hash(&mut oh);
        for c in 0..self.clients() {
            let view = x.sim.client_view(c);
            view.ents
                .iter()
                .map(|(e, ce)| (e, &ce.comps, ce.marked))
                .collect::<Vec<_>>()
                .hash(&mut oh);
            if !self.oracles.c01 || !x.sim.is_authorized(c) {
                continue;
            }
            x.sim.converged(c, &server, &view, false).map_err(|v| self.own(v))?;
        }
        x.outcome = oh.finish();
        Ok(())
    }
}

fn show_struct(s: &BTreeMap<u64, (BTreeSet<u8>, bool)>) -> String {
    let parts: Vec<String> = s
        .iter()
        .map(|(e, (cs, m))| {
            format!(
                "{}{{{}}}{}",
                fmt_bits(*e),
                cs.iter().map(|t| ctag_name(*t)).collect::<Vec<_>>().join(","),
                if *m { "" } else { "!unmarked" }
            )
        })
        .collect();
    format!("[{}]", parts.join(" "))
}

impl Scenario for ReplCell {
    type Exec = ReplExec;

    fn name(&self) -> String {
        self.name.clone()
    }

    fn cell(&self) -> serde_json::Value {
        serde_json::to_value(self).unwrap()
    }

    fn start(&self) -> ReplExec {
        let mut sim = Sim::new(&self.cfg);
        for c in 0..self.clients() {
            sim.connect(c);
        }
        let mut x = ReplExec {
            sim,
            round: 0,
            phase: Phase::Op(0),
            round_ops: vec![],
            round_tick: true,
            line: String::new(),
            prev_last_tick: BTreeMap::new(),
            prev_update_tick: vec![None; self.clients()],
            states: vec![],
            structural_ops: 0,
            applied_ops: 0,
            mut_msgs_delivered: 0,
            mut_deviation: false,
            upd_held: 0,
            outcome: 0,
            dropped_leftover: false,
            observed_views: Vec::new(),
            c11_baseline: BTreeMap::new(),
            setup_done: false,
            setup_violation: None,
            stragglers: vec![],
            split_msgs: vec![],
            split_tick: 0,
            split_versions: BTreeMap::new(),
            split_before: BTreeMap::new(),
        };
        // Handshake / settle: two lock-step rounds, then the initial operations, then settle.
        let r = (|| -> Result<(), Violation> {
            self.lockstep_round(&mut x, true)?;
            for &op in &self.init {
                assert!(x.sim.enabled(op), "initial op {op:?} not enabled in {}", self.name);
                x.sim.apply_op(op);
            }
            for _ in 0..3 {
                self.lockstep_round(&mut x, true)?;
            }
            // One frame without tick so that change-detection baselines are past the set-up.
            self.lockstep_round(&mut x, false)?;
            Ok(())
        })();
        if let Err(mut v) = r {
            // a violation before the first choice point ends the execution with that verdict
            v.detail = format!("during the cell's set-up (lock-step, before the first operation): {}", v.detail);
            x.setup_violation = Some(v);
            return x;
        }
        x.sim.steps.clear();
        x.states.clear();
        x.setup_done = true;
        let tick = x.sim.server_tick();
        for c in 0..self.clients() {
            for slot in 0..x.sim.ents.len() as u8 {
                x.c11_baseline.insert((c, slot + 1), tick);
            }
        }
        if self.rounds == 0 {
            x.phase = Phase::Leftover;
        }
        x
    }

    fn next(&self, x: &mut ReplExec) -> Option<ChoicePoint> {
        if x.setup_violation.is_some() {
            return None;
        }
        loop {
            match x.phase {
                Phase::Op(i) => {
                    let ops = self.enabled_ops(x, i);
                    return Some(ChoicePoint::history(
                        "op",
                        ops.iter().map(|o| o.show()).collect(),
                    ));
                }
                Phase::Tick => {
                    return Some(ChoicePoint::history(
                        "tick",
                        vec!["tick".into(), "no tick".into()],
                    ));
                }
                Phase::Acks(c) => {
                    let n = x.sim.clients[c].c2s[ACK].len();
                    let mut alts = vec![("deliver".to_string(), 0)];
                    if self.env.hold_acks && n > 0 {
                        alts.push(("hold".into(), 1));
                    }
                    if self.junk_acks {
                        alts.push(("deliver + junk indices".into(), 1));
                    }
                    if self.straggler_acks && n > 0 {
                        alts.push(("oldest arrives two rounds late".into(), 1));
                    }
                    return Some(ChoicePoint::env("acks", alts));
                }
                Phase::Upd(c) => return Some(ChoicePoint::env("upd", self.upd_alts(x, c))),
                Phase::Mut(c) => return Some(ChoicePoint::env("mut", self.mut_alts(x, c))),
                Phase::Leftover => {
                    let left: usize = x.sim.clients.iter().map(|cl| cl.s2c[MUT].len()).sum();
                    let mut alts = vec![("deliver late".to_string(), 0)];
                    if self.env.leftover_choice && left > 0 {
                        alts.push(("drop".into(), 0));
                    }
                    return Some(ChoicePoint::env("leftover", alts));
                }
                Phase::Split => return Some(crate::props::c10::split_choice(self, x)),
                Phase::ServerFrame | Phase::ClientFrame(_) => {
                    unreachable!("frame phases are executed inside apply")
                }
                Phase::Done => return None,
            }
        }
    }

    fn apply(&self, x: &mut ReplExec, alt: usize) -> Result<(), Violation> {
        match x.phase {
            Phase::Op(i) => {
                if i == 0 {
                    x.round_ops.clear();
                    x.round_tick = true;
                }
                let ops = self.enabled_ops(x, i);
                let op = ops[alt];
                x.round_ops.push(op);
                if op != Op::Nop {
                    x.applied_ops += 1;
                    if !matches!(op, Op::Mut(..) | Op::MutBig(..)) {
                        x.structural_ops += 1;
                    }
                }
                // observers of the library run inside the operation: a panic there is the library's
                if let Err((msg, loc)) = guarded(|| x.sim.apply_op(op)) {
                    return Err(Violation::new(self.property, "panic", format!("the operation `{}` panicked inside the library: {msg} ({})", op.show(), short_loc(&loc)))
                        .feat("side:server")
                        .feat(format!("at:{}", short_loc(&loc))));
                }
                self.check_visibility_query(x)?;
                self.advance(x);
            }
            Phase::Tick => {
                x.round_tick = alt == 0;
                self.advance(x);
            }
            Phase::Acks(c) => {
                let label = self.next(x).unwrap().alts[alt].clone();
                // stragglers whose time has come are back at the head of the queue
                let due: Vec<Msg> = {
                    let round = x.round;
                    let (now, later): (Vec<_>, Vec<_>) = std::mem::take(&mut x.stragglers).into_iter().partition(|(r, sc, _)| *sc == c && *r <= round);
                    x.stragglers = later;
                    now.into_iter().map(|(_, _, m)| m).collect()
                };
                for m in due.into_iter().rev() {
                    x.sim.clients[c].c2s[ACK].push_front(m);
                }
                if label == "hold" {
                    x.line.push_str(&format!(" acks(c{c}) held;"));
                } else if label.contains("two rounds late") {
                    if let Some(m) = x.sim.clients[c].c2s[ACK].pop_front() {
                        x.line.push_str(&format!(" acks(c{c}): oldest delayed by two rounds;"));
                        x.stragglers.push((x.round + 2, c, m));
                    }
                    x.sim.deliver_to_server(c, ACK, &Sel::All);
                } else {
                    x.sim.deliver_to_server(c, ACK, &Sel::All);
                }
                if label.contains("junk") {
                    x.line.push_str(&format!(" junk acks(c{c});"));
                    x.sim.inject_junk_acks(c);
                }
                // other client channels (events) are always delivered in this scenario
                for ch in 1..x.sim.client_channels.len() {
                    x.sim.deliver_to_server(c, ch, &Sel::All);
                }
                self.advance(x);
            }
            Phase::Upd(c) => {
                let n = x.sim.clients[c].s2c[UPD].len();
                if self.upd_alts(x, c).get(alt).is_some_and(|a| a.0 == "all, newest first") {
                    x.line.push_str(" updates newest first;");
                    x.sim.deliver_to_client(c, UPD, &Sel::Indices((0..n).rev().collect()));
                } else {
                    let k = n - alt;
                    if alt > 0 {
                        x.upd_held += 1;
                        x.line.push_str(&format!(" updates {k} of {n};"));
                    }
                    x.sim.deliver_to_client(c, UPD, &Sel::Prefix(k));
                }
                self.advance(x);
            }
            Phase::Mut(c) => {
                let sel = self.mut_sel(x, c, alt);
                if alt > 0 {
                    x.mut_deviation = true;
                    x.line.push_str(&format!(" mutations: {};", self.mut_alts(x, c)[alt].0));
                }
                let n = x.sim.deliver_to_client(c, MUT, &sel);
                x.mut_msgs_delivered += n as u32;
                if self.env.lossy {
                    x.sim.clients[c].s2c[MUT].clear();
                }
                for ch in 2..x.sim.server_channels.len() {
                    x.sim.deliver_to_client(c, ch, &Sel::All);
                }
                self.advance(x);
            }
            Phase::Split => {
                crate::props::c10::split_apply(self, x, alt)?;
                self.advance(x);
            }
            Phase::Leftover => {
                if self.split_stage {
                    crate::props::c10::split_prepare(self, x)?;
                }
                if alt == 1 {
                    x.dropped_leftover = true;
                    for cl in &mut x.sim.clients {
                        cl.s2c[MUT].clear();
                    }
                    x.sim.note("leftover unreliable messages dropped");
                }
                self.advance(x);
            }
            _ => unreachable!(),
        }
        // Run the frames that follow the choice just made.
        loop {
            match x.phase {
                Phase::ServerFrame => {
                    let ops: Vec<String> = x.round_ops.iter().map(|o| o.show()).collect();
                    let line = format!(
                        "round {}: server: {}, {}{}",
                        x.round + 1,
                        ops.join(" + "),
                        if x.round_tick { "tick" } else { "no tick" },
                        std::mem::take(&mut x.line)
                    );
                    x.sim.note(line);
                    x.sim.server_frame(x.round_tick).map_err(|v| self.own(v))?;
                    self.check_wire_hidden(x)?;
                    self.check_server_frame(x)?;
                    let sent: Vec<String> = x
                        .sim
                        .wire
                        .iter()
                        .rev()
                        .take_while(|w| w.server_frame == x.sim.server_frames)
                        .map(|w| format!("c{}/ch{}:{}B", w.client, w.channel, w.bytes.len()))
                        .collect();
                    let tick = x.sim.server_tick();
                    let snap = x.sim.server_snap();
                    x.sim.note(format!(
                        "    server tick {tick} state {} sent [{}]",
                        show_snap(&snap),
                        sent.join(" ")
                    ));
                    self.advance(x);
                }
                Phase::ClientFrame(c) => {
                    let line = format!("  client c{c}:{}", std::mem::take(&mut x.line));
                    x.sim.note(line);
                    x.sim.client_frame(c).map_err(|v| self.own(v))?;
                    let view = x.sim.client_view(c);
                    x.sim.note(format!("    view {}", view.show()));
                    self.check_client(x, c)?;
                    self.advance(x);
                }
                _ => break,
            }
        }
        Ok(())
    }

    fn finish(&self, x: &mut ReplExec) -> Result<(), Violation> {
        if let Some(v) = x.setup_violation.take() {
            return Err(v);
        }
        x.sim.note("closure: lock-step rounds with ticks, everything delivered");
        for (_, c, m) in std::mem::take(&mut x.stragglers) {
            x.sim.clients[c].c2s[ACK].push_front(m);
        }
        for _ in 0..self.closure_rounds {
            self.lockstep_round(x, true)?;
        }
        if self.oracles.c03 {
            // Structural probe: a fresh entity visible to everyone forces an update message to
            // every client, so that the per-frame structural oracle compares each client with
            // the *final* tick even if nothing else would have been sent to it.
            let probe = Op::Spawn(PROBE_SLOT, 1 << TA);
            if x.sim.enabled(probe) {
                x.sim.note("closure probe: spawn a fresh entity visible to every client");
                x.sim.apply_op(probe);
                if self.cfg.vis == Vis::Whitelist {
                    for c in 0..self.clients() {
                        let op = Op::Vis(c as u8, PROBE_SLOT, true);
                        if x.sim.enabled(op) {
                            x.sim.apply_op(op);
                        }
                    }
                }
                self.lockstep_round(x, true)?;
                self.lockstep_round(x, true)?;
            }
        }
        let mut r = self.final_check(x);
        if r.is_ok() && self.oracles.c16 {
            r = crate::props::c16::check_closed(self.property, &mut x.sim);
        }
        if r.is_ok() && (self.oracles.c11 || self.oracles.c11_rest) {
            r = crate::props::c11::quiescence(self, x);
        }
        if r.is_ok() && self.oracles.c08_twin && self.clients() >= 2 {
            r = self.twin_check(x);
        }
        for c in 0..self.clients() {
            let view = x.sim.client_view(c);
            x.sim.note(format!("  final c{c}: {}", view.show()));
        }
        let snap = x.sim.server_snap();
        x.sim.note(format!("  final server: {}", show_snap(&snap)));
        r
    }

    fn summary(&self, x: &mut ReplExec) -> Summary {
        let nontrivial = match self.property {
            "C10" | "C11" | "C12" => x.mut_msgs_delivered > 0 && !x.sim.acks.format_unknown,
            "C02" => x.mut_msgs_delivered > 0,
            "C03" | "C16" => x.structural_ops > 0,
            _ => x.applied_ops > 0,
        };
        Summary {
            outcome: x.outcome,
            nontrivial,
            states: std::mem::take(&mut x.states),
            transitions: x.sim.transitions,
            trace_digest: x.sim.trace.clone().finish(),
            steps: x.sim.steps.clone(),
        }
    }
}
