//! Event vocabulary, observation plumbing and the event scenario (C04, C05, C07).

use std::{
    collections::{BTreeMap, BTreeSet},
    hash::{Hash, Hasher},
};

use bevy::{ecs::entity::MapEntities, prelude::*};
use bevy_replicon::{client::ServerUpdateTick, prelude::*, shared::server_entity_map::ServerEntityMap};
use serde::{Deserialize, Serialize};

use crate::{
    explore::{ChoicePoint, Scenario, Summary, Violation},
    sim::*,
};

// ------------------------------------------------------------------------------------------
// Vocabulary
// ------------------------------------------------------------------------------------------

pub type Seq = [u8; 4];
pub const SEQ_A: u8 = 0xE7;
pub const SEQ_Z: u8 = 0x7E;
pub fn seq(tag: u8, n: u8) -> Seq {
    [SEQ_A, tag, n, SEQ_Z]
}

macro_rules! plain_event {
    ($name:ident) => {
        #[derive(Event, Serialize, Deserialize, Clone, Debug)]
        pub struct $name(pub Seq);
    };
}
plain_event!(E1); // ordered, dependent
plain_event!(E2); // unordered, dependent
plain_event!(E3); // unreliable, dependent
plain_event!(EI); // ordered, independent
plain_event!(T1); // trigger, ordered, dependent (optionally with a target)
plain_event!(TI); // trigger, ordered, independent
plain_event!(C1); // client event, ordered
plain_event!(C2); // client event, unordered
plain_event!(C3); // client event, unreliable
plain_event!(CT); // client trigger, ordered (optionally with a target)

/// Mapped server event, ordered, dependent.
#[derive(Event, Serialize, Deserialize, Clone, Debug, MapEntities)]
pub struct EM {
    pub seq: Seq,
    #[entities]
    pub e: Entity,
}
/// Mapped server trigger, ordered, dependent: an entity inside the event and a target.
#[derive(Event, Serialize, Deserialize, Clone, Debug, MapEntities)]
pub struct TM {
    pub seq: Seq,
    #[entities]
    pub e: Entity,
}
/// Mapped client event, ordered.
#[derive(Event, Serialize, Deserialize, Clone, Debug, MapEntities)]
pub struct CM {
    pub seq: Seq,
    #[entities]
    pub e: Entity,
}

/// Client event with a variable-length field, ordered.
#[derive(Event, Serialize, Deserialize, Clone, Debug)]
pub struct CS {
    pub seq: Seq,
    pub text: String,
    /// a sequence of multi-byte elements (decoded through serde's sequence visitor)
    pub nums: Vec<u64>,
}

#[derive(Clone, Copy, Debug, PartialEq, Eq, Hash, PartialOrd, Ord, Serialize)]
pub enum SK {
    E1,
    E2,
    E3,
    EM,
    EI,
    T1,
    TI,
    TM,
}
impl SK {
    pub fn tag(self) -> u8 {
        self as u8 + 1
    }
    pub fn independent(self) -> bool {
        matches!(self, SK::EI | SK::TI)
    }
    pub fn reliable(self) -> bool {
        !matches!(self, SK::E3)
    }
    pub fn ordered(self) -> bool {
        matches!(self, SK::E1 | SK::EM | SK::EI | SK::T1 | SK::TI | SK::TM)
    }
    pub const ALL: [SK; 8] = [SK::E1, SK::E2, SK::E3, SK::EM, SK::EI, SK::T1, SK::TI, SK::TM];
}

#[derive(Clone, Copy, Debug, PartialEq, Eq, Hash, PartialOrd, Ord, Serialize)]
pub enum CK {
    C1,
    C2,
    C3,
    CM,
    CT,
    CS,
}
impl CK {
    pub fn tag(self) -> u8 {
        self as u8 + 11
    }
    pub fn reliable(self) -> bool {
        !matches!(self, CK::C3)
    }
    pub fn ordered(self) -> bool {
        matches!(self, CK::C1 | CK::CM | CK::CT | CK::CS)
    }
    pub const ALL: [CK; 6] = [CK::C1, CK::C2, CK::C3, CK::CM, CK::CT, CK::CS];
}

/// Channel ids of the vocabulary, recorded at registration.
#[derive(Resource, Clone, Debug, Default)]
pub struct EvChannels {
    pub server: BTreeMap<SK, usize>,
    pub client: BTreeMap<CK, usize>,
}

#[derive(Clone, Debug, PartialEq, Eq, Hash)]
pub struct Obs {
    pub tag: u8,
    pub n: u8,
    /// `ServerUpdateTick` of the observing app at the moment of delivery.
    pub update_tick: u32,
    /// Entity carried by the event / trigger target, as seen by the observer.
    pub entity: Option<u64>,
    /// ... translated back to the server's entity through the observer's entity map.
    pub entity_as_server: Option<u64>,
    pub entity_alive: bool,
    /// `FromClient::client` for client events observed on the server.
    pub from: Option<u64>,
}

#[derive(Resource, Default)]
pub struct Observed(pub Vec<Obs>);

/// Connection entities named by `DisconnectRequest` events.
#[derive(Resource, Default)]
pub struct DisconnectSeen(pub Vec<u64>);

fn read_disconnect_requests(mut r: EventReader<DisconnectRequest>, mut o: ResMut<DisconnectSeen>) {
    for e in r.read() {
        o.0.push(e.client.to_bits());
    }
}

fn note_plain(o: &mut Observed, s: &Seq, tick: &Option<Res<ServerUpdateTick>>, from: Option<Entity>) {
    o.0.push(Obs {
        tag: s[1],
        n: s[2],
        update_tick: tick.as_ref().map(|t| t.get()).unwrap_or(0),
        entity: None,
        entity_as_server: None,
        entity_alive: false,
        from: from.map(|e| e.to_bits()),
    });
}

macro_rules! server_reader {
    ($fn:ident, $t:ty) => {
        fn $fn(
            mut r: EventReader<$t>,
            tick: Option<Res<ServerUpdateTick>>,
            mut o: ResMut<Observed>,
        ) {
            for e in r.read() {
                note_plain(&mut o, &e.0, &tick, None);
            }
        }
    };
}
server_reader!(read_e1, E1);
server_reader!(read_e2, E2);
server_reader!(read_e3, E3);
server_reader!(read_ei, EI);

macro_rules! client_reader {
    ($fn:ident, $t:ty) => {
        fn $fn(
            mut r: EventReader<FromClient<$t>>,
            tick: Option<Res<ServerUpdateTick>>,
            mut o: ResMut<Observed>,
        ) {
            for e in r.read() {
                note_plain(&mut o, &e.event.0, &tick, Some(e.client));
            }
        }
    };
}
client_reader!(read_c1, C1);
client_reader!(read_c2, C2);
client_reader!(read_c3, C3);

fn read_cs(mut r: EventReader<FromClient<CS>>, tick: Option<Res<ServerUpdateTick>>, mut o: ResMut<Observed>) {
    for e in r.read() {
        note_plain(&mut o, &e.event.seq, &tick, Some(e.client));
    }
}

fn note_entity(
    o: &mut Observed,
    s: &Seq,
    tick: &Option<Res<ServerUpdateTick>>,
    e: Entity,
    map: &Option<Res<ServerEntityMap>>,
    entities: &bevy::ecs::entity::Entities,
    from: Option<Entity>,
) {
    let has = e != Entity::PLACEHOLDER;
    o.0.push(Obs {
        tag: s[1],
        n: s[2],
        update_tick: tick.as_ref().map(|t| t.get()).unwrap_or(0),
        entity: has.then(|| e.to_bits()),
        entity_as_server: map
            .as_ref()
            .and_then(|m| m.to_server().get(&e).map(|s| s.to_bits())),
        entity_alive: has && entities.contains(e),
        from: from.map(|e| e.to_bits()),
    });
}

fn read_em(
    mut r: EventReader<EM>,
    tick: Option<Res<ServerUpdateTick>>,
    map: Option<Res<ServerEntityMap>>,
    entities: &bevy::ecs::entity::Entities,
    mut o: ResMut<Observed>,
) {
    for e in r.read() {
        note_entity(&mut o, &e.seq, &tick, e.e, &map, entities, None);
    }
}

fn read_cm(
    mut r: EventReader<FromClient<CM>>,
    tick: Option<Res<ServerUpdateTick>>,
    map: Option<Res<ServerEntityMap>>,
    entities: &bevy::ecs::entity::Entities,
    mut o: ResMut<Observed>,
) {
    for e in r.read() {
        note_entity(&mut o, &e.event.seq, &tick, e.event.e, &map, entities, Some(e.client));
    }
}

pub fn register(app: &mut App) {
    let mut ch = EvChannels::default();
    let sc = |app: &App| app.world().resource::<RepliconChannels>().server_channels().len();
    let cc = |app: &App| app.world().resource::<RepliconChannels>().client_channels().len();

    ch.server.insert(SK::E1, sc(app));
    app.add_server_event::<E1>(Channel::Ordered);
    ch.server.insert(SK::E2, sc(app));
    app.add_server_event::<E2>(Channel::Unordered);
    ch.server.insert(SK::E3, sc(app));
    app.add_server_event::<E3>(Channel::Unreliable);
    ch.server.insert(SK::EM, sc(app));
    app.add_mapped_server_event::<EM>(Channel::Ordered);
    ch.server.insert(SK::EI, sc(app));
    app.add_server_event::<EI>(Channel::Ordered)
        .make_event_independent::<EI>();
    ch.server.insert(SK::T1, sc(app));
    app.add_server_trigger::<T1>(Channel::Ordered);
    ch.server.insert(SK::TI, sc(app));
    app.add_server_trigger::<TI>(Channel::Ordered)
        .make_trigger_independent::<TI>();
    ch.server.insert(SK::TM, sc(app));
    app.add_mapped_server_trigger::<TM>(Channel::Ordered);

    ch.client.insert(CK::C1, cc(app));
    app.add_client_event::<C1>(Channel::Ordered);
    ch.client.insert(CK::C2, cc(app));
    app.add_client_event::<C2>(Channel::Unordered);
    ch.client.insert(CK::C3, cc(app));
    app.add_client_event::<C3>(Channel::Unreliable);
    ch.client.insert(CK::CM, cc(app));
    app.add_mapped_client_event::<CM>(Channel::Ordered);
    ch.client.insert(CK::CT, cc(app));
    app.add_client_trigger::<CT>(Channel::Ordered);
    ch.client.insert(CK::CS, cc(app));
    app.add_client_event::<CS>(Channel::Ordered);

    app.insert_resource(ch)
        .init_resource::<Observed>()
        .init_resource::<DisconnectSeen>()
        // (read where a messaging backend reads them: in its send set of `PostUpdate`)
        .add_systems(PostUpdate, read_disconnect_requests.in_set(ServerSet::SendPackets));
    app.add_systems(
        Update,
        (
            read_e1, read_e2, read_e3, read_ei, read_em, read_c1, read_c2, read_c3, read_cm, read_cs,
        ),
    );
    app.add_observer(
        |t: Trigger<T1>,
         tick: Option<Res<ServerUpdateTick>>,
         map: Option<Res<ServerEntityMap>>,
         entities: &bevy::ecs::entity::Entities,
         mut o: ResMut<Observed>| {
            note_entity(&mut o, &t.event().0, &tick, t.target(), &map, entities, None);
        },
    );
    app.add_observer(
        |t: Trigger<TM>,
         tick: Option<Res<ServerUpdateTick>>,
         map: Option<Res<ServerEntityMap>>,
         entities: &bevy::ecs::entity::Entities,
         mut o: ResMut<Observed>| {
            note_entity(&mut o, &t.event().seq, &tick, t.target(), &map, entities, None);
        },
    );
    app.add_observer(
        |t: Trigger<TI>,
         tick: Option<Res<ServerUpdateTick>>,
         map: Option<Res<ServerEntityMap>>,
         entities: &bevy::ecs::entity::Entities,
         mut o: ResMut<Observed>| {
            note_entity(&mut o, &t.event().0, &tick, t.target(), &map, entities, None);
        },
    );
    app.add_observer(
        |t: Trigger<FromClient<CT>>,
         tick: Option<Res<ServerUpdateTick>>,
         map: Option<Res<ServerEntityMap>>,
         entities: &bevy::ecs::entity::Entities,
         mut o: ResMut<Observed>| {
            note_entity(
                &mut o,
                &t.event().event.0,
                &tick,
                t.target(),
                &map,
                entities,
                Some(t.event().client),
            );
        },
    );
}

pub fn drain_observed_opt(app: &mut App) -> Vec<Obs> {
    match app.world_mut().get_resource_mut::<Observed>() {
        Some(mut o) => std::mem::take(&mut o.0),
        None => Vec::new(),
    }
}

pub fn drain_observed(app: &mut App) -> Vec<Obs> {
    std::mem::take(&mut app.world_mut().resource_mut::<Observed>().0)
}

/// All `(tag, n)` sequence markers contained in a message.
pub fn seqs_in(bytes: &[u8]) -> Vec<(u8, u8)> {
    bytes
        .windows(4)
        .filter(|w| w[0] == SEQ_A && w[3] == SEQ_Z)
        .map(|w| (w[1], w[2]))
        .collect()
}

// ------------------------------------------------------------------------------------------
// Emission
// ------------------------------------------------------------------------------------------

#[derive(Clone, Copy, Debug, PartialEq, Eq, Hash, Serialize)]
pub enum Mode {
    Broadcast,
    Except(u8),
    Direct(u8),
}

#[derive(Clone, Copy, Debug, PartialEq, Eq, Hash, Serialize)]
pub enum EvOp {
    Nop,
    World(Op),
    /// Two world operations before the same frame.
    WorldPair(Op, Op),
    /// Server emits an event of a kind with a send mode, optionally referencing an entity slot.
    EmitS(SK, Mode, Option<u8>),
    /// Several server emissions before one and the same frame (see `bursts`).
    Burst(u8),
    /// Client `c` emits an event, optionally referencing an entity slot (mapped to the client's entity).
    EmitC(u8, CK, Option<u8>),
    /// Client `c` first emits a mapped event referencing an entity the server cannot know (refused
    /// locally), then - in the same frame - the given event.
    EmitCAfterBad(u8, CK, Option<u8>),
    Connect(u8),
    /// The client's transport spends four frames in `Connecting` before it is `Connected`.
    ConnectSlowly(u8),
    /// The connection is lost; the client's transport reports `Connecting` for one frame before
    /// it reports `Disconnected`.
    DisconnectSlowly(u8),
    /// Like `ConnectSlowly` with a single frame in `Connecting`, during which the game emits a
    /// client event: no session is up, so it must never reach the server.
    ConnectSlowlyEmitting(u8),
    /// The backend re-inserts `ConnectedClient` on a live connection (e.g. to change `max_size`).
    TouchConnection(u8),
    Disconnect(u8),
    /// Custom authorization: insert `AuthorizedClient` on the client's connection entity.
    Authorize(u8),
    /// The server stops (all clients are dropped) / starts again.
    StopServer,
    StartServer,
    /// The server starts, accepts client `c` and the game emits E1 to everyone, all before the
    /// server's first running frame.
    StartServerWithEmit(u8),
    /// The transport closes `c`'s connection inside the server's next frame, after the library's
    /// send systems queued that frame's messages and before the transport flushes them.
    DisconnectAfterSend(u8),
    /// Client `c` emits a mapped event that references an entity it kept from an earlier session
    /// (no longer in its entity map): it cannot be translated and must not reach the server.
    EmitCStale(u8),
    /// The server starts and accepts client `c` before its first frame.
    StartServerWith(u8),
    /// The connection of `c` drops after this round's client messages were handed to the server
    /// but before the server's next frame.
    LateDisconnect(u8),
    /// Custom authorization flow: the game inserts `ClientEntityMap` on the connection entity
    /// ahead of `AuthorizedClient` (as the documentation of the auth method shows).
    PreMap(u8),
    /// Re-insert `Replicated` on an entity that already has it.
    ReMark(u8),
}

/// Emission sequences of `EvOp::Burst`: all of one burst is emitted before the same frame.
pub fn burst(k: u8) -> Vec<(SK, Mode, Option<u8>)> {
    match k {
        // an exception that must not spill over to the events that follow it
        0 => vec![(SK::E1, Mode::Except(0), None), (SK::E1, Mode::Broadcast, None), (SK::E1, Mode::Direct(0), None)],
        // an event some recipients cannot translate, followed by events they can
        1 => vec![(SK::EM, Mode::Broadcast, Some(1)), (SK::EM, Mode::Broadcast, Some(0)), (SK::E1, Mode::Broadcast, None), (SK::T1, Mode::Broadcast, None)],
        // a direct event (the addressee may not be authorized), then a broadcast
        2 => vec![(SK::E1, Mode::Direct(1), None), (SK::E1, Mode::Broadcast, None), (SK::E2, Mode::Broadcast, None)],
        _ => unreachable!(),
    }
}

impl EvOp {
    pub fn show(&self) -> String {
        match self {
            EvOp::Nop => "nop".into(),
            EvOp::World(op) => op.show(),
            EvOp::WorldPair(a, b) => format!("{} + {}", a.show(), b.show()),
            EvOp::EmitS(k, m, r) => format!(
                "server emits {k:?} {}{}",
                match m {
                    Mode::Broadcast => "to all".to_string(),
                    Mode::Except(c) => format!("to all but c{c}"),
                    Mode::Direct(c) => format!("to c{c}"),
                },
                r.map(|s| format!(" ref e{}", s + 1)).unwrap_or_default()
            ),
            EvOp::Burst(k) => format!(
                "in one frame: {}",
                burst(*k).iter().map(|(kind, m, r)| EvOp::EmitS(*kind, *m, *r).show()).collect::<Vec<_>>().join("; ")
            ),
            EvOp::EmitC(c, k, r) => format!(
                "c{c} emits {k:?}{}",
                r.map(|s| format!(" ref e{}", s + 1)).unwrap_or_default()
            ),
            EvOp::EmitCAfterBad(c, k, r) => format!(
                "c{c} emits CM with an unmappable reference, triggers CT at an unmappable target and then emits {k:?}{}",
                r.map(|s| format!(" ref e{}", s + 1)).unwrap_or_default()
            ),
            EvOp::Connect(c) => format!("connect c{c}"),
            EvOp::ConnectSlowly(c) => format!("connect c{c} after four frames in Connecting"),
            EvOp::ConnectSlowlyEmitting(c) => format!("connect c{c} after one frame in Connecting in which it emits C1"),
            EvOp::TouchConnection(c) => format!("re-insert ConnectedClient on c{c}'s connection"),
            EvOp::DisconnectSlowly(c) => format!("disconnect c{c}, its transport retries for a frame first"),
            EvOp::Disconnect(c) => format!("disconnect c{c}"),
            EvOp::Authorize(c) => format!("authorize c{c}"),
            EvOp::StopServer => "stop server".into(),
            EvOp::StartServer => "start server".into(),
            EvOp::StartServerWith(c) => format!("start server and connect c{c} in the same frame"),
            EvOp::StartServerWithEmit(c) => format!("start server, connect c{c} and emit E1 to all before the first running frame"),
            EvOp::EmitCStale(c) => format!("c{c} emits CM referencing an entity left over from an earlier session"),
            EvOp::DisconnectAfterSend(c) => format!("connection of c{c} closed after the server's send systems of this frame"),
            EvOp::LateDisconnect(c) => format!("disconnect c{c} after its messages reached the server"),
            EvOp::PreMap(c) => format!("insert ClientEntityMap on c{c} before authorization"),
            EvOp::ReMark(s) => format!("re-insert Replicated on e{}", s + 1),
        }
    }
}

#[derive(Clone, Debug)]
pub struct Emitted {
    pub tag: u8,
    pub n: u8,
    pub server_kind: Option<SK>,
    pub client_kind: Option<CK>,
    /// Intended recipients (server events): (client, session) pairs fixed at emission.
    pub recipients: BTreeSet<(usize, u32)>,
    /// Sender (client events): (client, session, connection entity bits).
    pub sender: Option<(usize, u32, u64)>,
    /// Referenced server entity.
    pub reference: Option<u64>,
    /// Clients that were authorized when the event was emitted.
    pub auth_at_emit: BTreeSet<usize>,
    /// (client, session) pairs authorized at the first tick after the emission, when a dependent
    /// event is flushed: whoever was not authorized then never gets it (`None` until that tick).
    pub auth_at_flush: Option<BTreeSet<(usize, u32)>>,
    /// Per client: the replicated server entities it could see when the event was emitted (a
    /// dependent event may reach a client only after these have been spawned there).
    pub visible_at_emit: BTreeMap<usize, BTreeSet<u64>>,
    /// Clients that could see the referenced entity when the event was emitted.
    pub ref_visible_at_emit: BTreeSet<usize>,
    pub emit_frame: u32,
}

#[derive(Clone, Debug, Serialize)]
pub struct EvEnv {
    /// The last k in-flight update messages may be held for a step.
    pub hold_updates: usize,
    /// Event channels (all of them together) may be held for a step.
    pub hold_events: bool,
    /// Unordered / unreliable event channels may be delivered in reverse order.
    pub reorder: bool,
    /// Unreliable event messages may be dropped.
    pub drop_unreliable: bool,
    /// Client -> server event channels may be held for a step.
    pub hold_client_events: bool,
    /// Mutate messages may be held for a step.
    pub hold_mutations: bool,
    /// Acknowledgements may be held for a step.
    pub hold_acks: bool,
    /// Baseline latency of the update channel in rounds: an update message becomes deliverable
    /// only this many client steps after the one that follows its server frame (0 = lock-step).
    /// A different default schedule, still a legal one; deviations are explored around it.
    pub update_latency: u32,
    /// Baseline batching of the update channel: pending update messages are handed over only in
    /// every n-th round (0 = no batching), i.e. they arrive in bursts.
    pub update_batch: u32,
}

#[derive(Clone, Debug, Serialize, Default)]
pub struct EvOracles {
    pub c04: bool,
    pub c05: bool,
    pub c07: bool,
    pub convergence: bool,
    /// C09: per-frame confirmed-tick oracle per session, no traffic for closed connections.
    pub c09: bool,
    /// C16: adoption of pre-spawned entities, one client entity per server entity.
    pub c16: bool,
    /// C10: a child and its parent (synchronized relationship) whose mutations are in one
    /// tick's traffic travel in the same mutate message.
    pub c10_groups: bool,
}

#[derive(Clone, Debug, Serialize)]
pub struct EvCell {
    pub name: String,
    pub property: &'static str,
    pub cfg: Cfg,
    pub connect_at_start: Vec<usize>,
    pub init: Vec<Op>,
    pub alphabet: Vec<EvOp>,
    pub rounds: usize,
    pub tick_choice: bool,
    pub env: EvEnv,
    pub oracles: EvOracles,
    pub closure_rounds: usize,
}

#[derive(Clone, Copy, Debug, PartialEq, Eq)]
enum Phase {
    Op,
    Tick,
    ToServer(usize),
    ServerFrame,
    Upd(usize),
    Events(usize),
    ClientFrame(usize),
    Done,
}

pub struct EvExec {
    /// A violation met during the set-up rounds; reported by `finish`.
    pub setup_violation: Option<Violation>,
    pub sim: Sim,
    round: usize,
    phase: Phase,
    round_op: EvOp,
    round_tick: bool,
    line: String,
    next_n: u8,
    pub emitted: Vec<Emitted>,
    /// (client, session, tag, n) -> number of deliveries observed on that client
    delivered: BTreeMap<(usize, u32, u8, u8), u32>,
    /// per client and ordered kind: last sequence number observed
    last_ordered: BTreeMap<(usize, u8), u8>,
    /// (tag, n) -> deliveries observed on the server (client events)
    server_delivered: BTreeMap<(u8, u8), u32>,
    server_last_ordered: BTreeMap<(usize, u8), u8>,
    /// (client, tag, n) -> server frame in which the marker first appeared on the wire to that client
    wire_frame: BTreeMap<(usize, u8, u8), u32>,
    /// (client, tag, n) -> client frame in which the marker first appeared on the wire from that client
    cwire_frame: BTreeMap<(usize, u8, u8), u32>,
    wire_seen: usize,
    states: Vec<u64>,
    events_emitted: u32,
    events_observed: u32,
    ops_applied: u32,
    late_disconnect: Option<usize>,
    /// client -> entities it kept from sessions that have ended
    orphans: BTreeMap<usize, BTreeSet<Entity>>,
    premapped: BTreeSet<usize>,
    /// connection entities that were closed: events attributed to them later are violations
    closed_conns: BTreeSet<u64>,
}

const UPD: usize = 0;
const MUT: usize = 1;

impl EvCell {
    fn clients(&self) -> usize {
        self.cfg.clients.len()
    }

    fn v(&self, oracle: &str, detail: String) -> Violation {
        Violation::new(self.property, oracle, detail)
    }
    fn own(&self, mut v: Violation) -> Violation {
        if v.property.is_empty() {
            v.property = self.property.to_string();
        }
        v
    }

    fn connected(x: &EvExec, c: usize) -> bool {
        x.sim.clients[c].conn.is_some()
    }

    /// A live client entity that was replicated state of an earlier session of this client (the
    /// harness's own record, taken when that session ended).
    fn stale_entity(x: &EvExec, c: usize) -> Option<Entity> {
        let w = x.sim.clients[c].app.world();
        x.orphans.get(&c).and_then(|s| s.iter().copied().find(|e| w.get_entity(*e).is_ok()))
    }

    /// Records the client's replicated entities when its session ends.
    fn note_orphans(x: &mut EvExec, c: usize) {
        let w = x.sim.clients[c].app.world();
        let ents: Vec<Entity> = w.iter_entities().filter(|e| e.contains::<Replicated>()).map(|e| e.id()).collect();
        x.orphans.entry(c).or_default().extend(ents);
    }

    fn op_enabled(&self, x: &EvExec, op: EvOp) -> bool {
        match op {
            EvOp::Nop => true,
            EvOp::World(op) => x.sim.enabled(op),
            EvOp::WorldPair(a, b) => x.sim.enabled(a) && x.sim.enabled(b),
            EvOp::EmitS(_, mode, r) => {
                let target_ok = match mode {
                    Mode::Broadcast => true,
                    Mode::Except(_) => true,
                    Mode::Direct(c) => Self::connected(x, c as usize),
                };
                target_ok && r.is_none_or(|s| x.sim.marked(s))
            }
            EvOp::Burst(k) => burst(k).into_iter().all(|(kind, m, r)| self.op_enabled(x, EvOp::EmitS(kind, m, r))),
            EvOp::EmitC(c, _, r) | EvOp::EmitCAfterBad(c, _, r) => {
                Self::connected(x, c as usize)
                    && r.is_none_or(|s| {
                        x.sim.alive(s).is_some_and(|e| {
                            x.sim.clients[c as usize]
                                .app
                                .world()
                                .resource::<ServerEntityMap>()
                                .to_client()
                                .contains_key(&e)
                        })
                    })
            }
            EvOp::Connect(c) | EvOp::ConnectSlowly(c) | EvOp::ConnectSlowlyEmitting(c) => !Self::connected(x, c as usize) && x.sim.server_running(),
            EvOp::TouchConnection(c) | EvOp::DisconnectSlowly(c) => Self::connected(x, c as usize),
            EvOp::StopServer => x.sim.server_running(),
            EvOp::StartServer => !x.sim.server_running(),
            EvOp::StartServerWith(c) | EvOp::StartServerWithEmit(c) => !x.sim.server_running() && !Self::connected(x, c as usize),
            EvOp::LateDisconnect(c) | EvOp::DisconnectAfterSend(c) => Self::connected(x, c as usize),
            EvOp::EmitCStale(c) => Self::connected(x, c as usize) && Self::stale_entity(x, c as usize).is_some(),
            EvOp::PreMap(c) => {
                self.cfg.auth == Auth::Custom
                    && Self::connected(x, c as usize)
                    && !x.sim.is_authorized(c as usize)
                    && !x.premapped.contains(&(c as usize))
            }
            EvOp::ReMark(s) => x.sim.marked(s),
            EvOp::Disconnect(c) => Self::connected(x, c as usize),
            EvOp::Authorize(c) => {
                self.cfg.auth == Auth::Custom
                    && Self::connected(x, c as usize)
                    && !x.sim.is_authorized(c as usize)
            }
        }
    }

    fn enabled_ops(&self, x: &EvExec) -> Vec<EvOp> {
        self.alphabet
            .iter()
            .copied()
            .filter(|&op| self.op_enabled(x, op))
            .collect()
    }

    fn server_event_channels(&self, x: &EvExec) -> Vec<(SK, usize)> {
        let ch = x.sim.server.world().resource::<EvChannels>();
        ch.server.iter().map(|(k, c)| (*k, *c)).collect()
    }

    fn client_event_channels(&self, x: &EvExec) -> Vec<(CK, usize)> {
        let ch = x.sim.server.world().resource::<EvChannels>();
        ch.client.iter().map(|(k, c)| (*k, *c)).collect()
    }

    fn apply_ev_op(&self, x: &mut EvExec, op: EvOp) {
        match op {
            EvOp::Nop => {}
            EvOp::World(op) => x.sim.apply_op(op),
            EvOp::WorldPair(a, b) => {
                x.sim.apply_op(a);
                x.sim.apply_op(b);
            }
            EvOp::Connect(c) => x.sim.connect(c as usize),
            EvOp::ConnectSlowly(c) => x.sim.connect_slowly(c as usize, 4),
            EvOp::ConnectSlowlyEmitting(c) => {
                let c = c as usize;
                x.sim.clients[c].app.world_mut().resource_mut::<RepliconClient>().set_status(RepliconClientStatus::Connecting);
                x.sim.clients[c].app.world_mut().send_event(C1(seq(CK::C1.tag(), 0)));
                x.sim.connect_slowly(c, 1);
            }
            EvOp::DisconnectSlowly(c) => {
                if let Some(conn) = x.sim.clients[c as usize].conn {
                    x.closed_conns.insert(conn.to_bits());
                }
                Self::note_orphans(x, c as usize);
                x.sim.disconnect_slowly(c as usize);
            }
            EvOp::TouchConnection(c) => {
                let conn = x.sim.clients[c as usize].conn.unwrap();
                let max_size = x.sim.clients[c as usize].max_size;
                x.sim.server.world_mut().entity_mut(conn).insert(ConnectedClient { max_size });
            }
            EvOp::Disconnect(c) => {
                if let Some(conn) = x.sim.clients[c as usize].conn {
                    x.closed_conns.insert(conn.to_bits());
                }
                Self::note_orphans(x, c as usize);
                x.sim.disconnect(c as usize)
            }
            EvOp::StopServer => {
                for c in 0..x.sim.clients.len() {
                    Self::note_orphans(x, c);
                }
                x.sim.stop_server()
            }
            EvOp::StartServer => x.sim.start_server(),
            EvOp::StartServerWith(c) => {
                x.sim.start_server();
                x.sim.connect(c as usize);
            }
            EvOp::StartServerWithEmit(c) => {
                x.sim.start_server();
                x.sim.connect(c as usize);
                self.apply_ev_op(x, EvOp::EmitS(SK::E1, Mode::Broadcast, None));
            }
            EvOp::LateDisconnect(c) => x.late_disconnect = Some(c as usize),
            EvOp::EmitCStale(c) => {
                let e = Self::stale_entity(x, c as usize).unwrap();
                x.sim.clients[c as usize].app.world_mut().send_event(CM { seq: seq(CK::CM.tag(), 0), e });
            }
            EvOp::DisconnectAfterSend(c) => {
                if let Some(conn) = x.sim.clients[c as usize].conn {
                    x.closed_conns.insert(conn.to_bits());
                }
                x.sim.disconnect_after_send(c as usize);
            }
            EvOp::PreMap(c) => {
                let conn = x.sim.clients[c as usize].conn.unwrap();
                x.sim
                    .server
                    .world_mut()
                    .entity_mut(conn)
                    .insert(bevy_replicon::prelude::ClientEntityMap::default());
                x.premapped.insert(c as usize);
            }
            EvOp::ReMark(s) => {
                let e = x.sim.alive(s).unwrap();
                x.sim.server.world_mut().entity_mut(e).insert(Replicated);
            }
            EvOp::Authorize(c) => {
                let conn = x.sim.clients[c as usize].conn.unwrap();
                x.sim.server.world_mut().entity_mut(conn).insert(AuthorizedClient);
            }
            EvOp::Burst(k) => {
                for (kind, m, r) in burst(k) {
                    self.apply_ev_op(x, EvOp::EmitS(kind, m, r));
                }
            }
            EvOp::EmitS(kind, mode, r) => {
                let n = x.next_n;
                x.next_n += 1;
                x.events_emitted += 1;
                let s = seq(kind.tag(), n);
                let conn_of = |c: u8| x.sim.clients[c as usize].conn.unwrap_or(Entity::PLACEHOLDER);
                let send_mode = match mode {
                    Mode::Broadcast => SendMode::Broadcast,
                    Mode::Except(c) => SendMode::BroadcastExcept(conn_of(c)),
                    Mode::Direct(c) => SendMode::Direct(conn_of(c)),
                };
                // Reference model of the intended recipients, fixed at emission: connected
                // clients selected by the mode; dependent kinds additionally need authorization.
                let mut recipients = BTreeSet::new();
                for c in 0..self.clients() {
                    if !Self::connected(x, c) {
                        continue;
                    }
                    let selected = match mode {
                        Mode::Broadcast => true,
                        Mode::Except(e) => e as usize != c,
                        Mode::Direct(d) => d as usize == c,
                    };
                    if selected {
                        recipients.insert((c, x.sim.clients[c].session));
                    }
                }
                let reference = r.and_then(|s| x.sim.alive(s));
                let x_first_slot = x.sim.alive(0);
                let w = x.sim.server.world_mut();
                match kind {
                    SK::E1 => {
                        w.send_event(ToClients { mode: send_mode, event: E1(s) });
                    }
                    SK::E2 => {
                        w.send_event(ToClients { mode: send_mode, event: E2(s) });
                    }
                    SK::E3 => {
                        w.send_event(ToClients { mode: send_mode, event: E3(s) });
                    }
                    SK::EI => {
                        w.send_event(ToClients { mode: send_mode, event: EI(s) });
                    }
                    SK::EM => {
                        w.send_event(ToClients {
                            mode: send_mode,
                            event: EM { seq: s, e: reference.expect("EM needs a reference") },
                        });
                    }
                    SK::T1 => match reference {
                        Some(e) => w.server_trigger_targets(ToClients { mode: send_mode, event: T1(s) }, e),
                        None => w.server_trigger(ToClients { mode: send_mode, event: T1(s) }),
                    },
                    SK::TI => w.server_trigger(ToClients { mode: send_mode, event: TI(s) }),
                    SK::TM => {
                        // the entity inside the event is the first slot (always resolvable in the
                        // cells that use this kind), the target is the referenced slot
                        let inside = x_first_slot.expect("TM needs e1");
                        w.server_trigger_targets(ToClients { mode: send_mode, event: TM { seq: s, e: inside } }, reference.expect("TM needs a target"));
                    }
                }
                x.emitted.push(Emitted {
                    tag: kind.tag(),
                    n,
                    server_kind: Some(kind),
                    client_kind: None,
                    recipients,
                    sender: None,
                    auth_at_emit: (0..x.sim.clients.len()).filter(|&c| x.sim.is_authorized(c)).collect(),
                    auth_at_flush: None,
                    visible_at_emit: {
                        let snap = x.sim.server_snap();
                        (0..x.sim.clients.len())
                            .map(|c| (c, snap.keys().copied().filter(|&b| x.sim.visible_now(c, b)).collect()))
                            .collect()
                    },
                    ref_visible_at_emit: reference
                        .map(|e| (0..x.sim.clients.len()).filter(|&c| x.sim.visible_now(c, e.to_bits())).collect())
                        .unwrap_or_default(),
                    reference: reference.map(|e| e.to_bits()),
                    emit_frame: x.sim.server_frames,
                });
            }
            EvOp::EmitC(c, kind, r) | EvOp::EmitCAfterBad(c, kind, r) => {
                let c = c as usize;
                if matches!(op, EvOp::EmitCAfterBad(..)) {
                    // a purely local entity: the event must be refused, and only this event
                    let w = x.sim.clients[c].app.world_mut();
                    let local = w.spawn_empty().id();
                    w.send_event(CM { seq: seq(CK::CM.tag(), 0), e: local });
                    // ... and a trigger aimed at it: it has no counterpart on the server either
                    w.client_trigger_targets(CT(seq(CK::CT.tag(), 0)), local);
                }
                let n = x.next_n;
                x.next_n += 1;
                x.events_emitted += 1;
                let s = seq(kind.tag(), n);
                let server_entity = r.and_then(|s| x.sim.alive(s));
                let client_entity = server_entity.map(|e| {
                    *x.sim.clients[c]
                        .app
                        .world()
                        .resource::<ServerEntityMap>()
                        .to_client()
                        .get(&e)
                        .expect("reference is mapped")
                });
                let conn = x.sim.clients[c].conn.unwrap();
                let session = x.sim.clients[c].session;
                let w = x.sim.clients[c].app.world_mut();
                match kind {
                    CK::C1 => {
                        w.send_event(C1(s));
                    }
                    CK::C2 => {
                        w.send_event(C2(s));
                    }
                    CK::C3 => {
                        w.send_event(C3(s));
                    }
                    CK::CM => {
                        w.send_event(CM { seq: s, e: client_entity.expect("CM needs a reference") });
                    }
                    CK::CS => {
                        w.send_event(CS { seq: s, text: "variable".into(), nums: vec![1, 300, u64::MAX] });
                    }
                    CK::CT => match client_entity {
                        Some(e) => w.client_trigger_targets(CT(s), e),
                        None => w.client_trigger(CT(s)),
                    },
                }
                x.emitted.push(Emitted {
                    tag: kind.tag(),
                    n,
                    server_kind: None,
                    client_kind: Some(kind),
                    recipients: BTreeSet::new(),
                    sender: Some((c, session, conn.to_bits())),
                    auth_at_emit: BTreeSet::new(),
                    auth_at_flush: None,
                    visible_at_emit: BTreeMap::new(),
                    ref_visible_at_emit: BTreeSet::new(),
                    reference: server_entity.map(|e| e.to_bits()),
                    emit_frame: x.sim.server_frames,
                });
            }
        }
    }

    fn advance(&self, x: &mut EvExec) {
        loop {
            x.phase = match x.phase {
                Phase::Op => Phase::Tick,
                Phase::Tick => Phase::ToServer(0),
                Phase::ToServer(c) if c + 1 < self.clients() => Phase::ToServer(c + 1),
                Phase::ToServer(_) => Phase::ServerFrame,
                Phase::ServerFrame => Phase::Upd(0),
                Phase::Upd(c) => Phase::Events(c),
                Phase::Events(c) => Phase::ClientFrame(c),
                Phase::ClientFrame(c) if c + 1 < self.clients() => Phase::Upd(c + 1),
                Phase::ClientFrame(_) => {
                    x.round += 1;
                    if x.round < self.rounds { Phase::Op } else { Phase::Done }
                }
                Phase::Done => Phase::Done,
            };
            match x.phase {
                Phase::Tick if !self.tick_choice => continue,
                _ => break,
            }
        }
    }

    /// Number of in-flight update messages old enough to be delivered under the baseline latency.
    fn deliverable_updates(&self, x: &EvExec, c: usize) -> usize {
        if self.env.update_batch > 1 && (x.round as u32 + 1) % self.env.update_batch != 0 {
            return 0;
        }
        x.sim.clients[c].s2c[UPD]
            .iter()
            .filter(|m| m.frame + self.env.update_latency <= x.sim.server_frames)
            .count()
    }

    fn events_in_flight_to_client(&self, x: &EvExec, c: usize) -> usize {
        (2..x.sim.server_channels.len()).map(|ch| x.sim.clients[c].s2c[ch].len()).sum()
    }

    fn events_in_flight_to_server(&self, x: &EvExec, c: usize) -> usize {
        (1..x.sim.client_channels.len()).map(|ch| x.sim.clients[c].c2s[ch].len()).sum()
    }

    /// Scans new wire records: resend detection (C05) and unauthorized traffic (C07).
    fn scan_server_wire(&self, x: &mut EvExec) -> Result<(), Violation> {
        let independent: BTreeSet<usize> = {
            let ch = x.sim.server.world().resource::<EvChannels>();
            let mut s: BTreeSet<usize> = ch
                .server
                .iter()
                .filter(|(k, _)| k.independent())
                .map(|(_, c)| *c)
                .collect();
            if self.cfg.auth == Auth::ProtocolCheck {
                // ProtocolMismatch is registered by the shared plugin as an independent trigger
                // right after the two replication channels.
                s.insert(2);
            }
            s
        };
        while x.wire_seen < x.sim.wire.len() {
            let w = x.sim.wire[x.wire_seen].clone();
            x.wire_seen += 1;
            for (tag, n) in seqs_in(&w.bytes) {
                if w.channel < 2 {
                    continue;
                }
                let key = (w.client, tag, n);
                match x.wire_frame.get(&key) {
                    None => {
                        x.wire_frame.insert(key, w.server_frame);
                    }
                    Some(&f) => {
                        if self.oracles.c05 {
                            return Err(self.v(
                                "sent-again",
                                format!(
                                    "event #{n} (kind tag {tag}) was put on the wire to c{} in server frame {f} and again in frame {}",
                                    w.client, w.server_frame
                                ),
                            ));
                        }
                    }
                }
            }
            if self.oracles.c07 && !x.sim.is_authorized(w.client) && !independent.contains(&w.channel) {
                return Err(self
                    .v(
                        "sent-to-unauthorized",
                        format!(
                            "server frame {} sent {} bytes on channel {} to c{} which is connected but not authorized",
                            w.server_frame,
                            w.bytes.len(),
                            w.channel,
                            w.client
                        ),
                    )
                    .feat(format!("channel:{}", w.channel.min(2))));
            }
        }
        Ok(())
    }

    fn scan_client_wire(&self, x: &mut EvExec, c: usize) -> Result<(), Violation> {
        let frame = x.sim.clients[c].frames;
        let mut found = Vec::new();
        for q in x.sim.clients[c].c2s.iter().skip(1) {
            for m in q {
                if m.frame == frame {
                    found.extend(seqs_in(&m.bytes));
                }
            }
        }
        for (tag, n) in found {
            let key = (c, tag, n);
            match x.cwire_frame.get(&key) {
                None => {
                    x.cwire_frame.insert(key, frame);
                }
                Some(&f) if f != frame && self.oracles.c05 => {
                    return Err(self.v(
                        "sent-again",
                        format!("client event #{n} (kind tag {tag}) was sent by c{c} in its frame {f} and again in frame {frame}"),
                    ));
                }
                _ => {}
            }
        }
        Ok(())
    }

    /// Oracles on what client `c` observed in its last frame.
    fn check_client_observations(&self, x: &mut EvExec, c: usize) -> Result<(), Violation> {
        let obs = drain_observed(&mut x.sim.clients[c].app);
        let session = x.sim.clients[c].session;
        for o in obs {
            x.events_observed += 1;
            (c, &o).hash(&mut x.sim.trace);
            let Some(em) = x.emitted.iter().find(|e| e.tag == o.tag && e.n == o.n).cloned() else {
                return Err(self.v(
                    "unknown-event",
                    format!("c{c} observed event #{} (tag {}) that was never emitted", o.n, o.tag),
                ));
            };
            // A client event re-emitted locally inside a client app (singleplayer semantics
            // after a disconnect) is C13's subject, not an event delivery from the server.
            let Some(kind) = em.server_kind else { continue };
            let count = x.delivered.entry((c, session, o.tag, o.n)).or_insert(0);
            *count += 1;
            if *count > 1 {
                return Err(self
                    .v(
                        "delivered-twice",
                        format!("c{c} observed {kind:?} #{} {} times", o.n, *count),
                    )
                    .feat(format!("kind:{kind:?}")));
            }
            if (self.oracles.c05 || self.oracles.c07) && !kind.independent() && self.cfg.auth != Auth::None {
                if em.auth_at_flush.as_ref().is_some_and(|a| !a.contains(&(c, session))) {
                    return Err(self
                        .v(
                            "event-predates-authorization",
                            format!("c{c} observed {kind:?} #{}, which was flushed on a tick at which c{c} was not authorized", o.n),
                        )
                        .feat(format!("kind:{kind:?}")));
                }
            }
            if self.oracles.c04 && !kind.independent() {
                // every entity the server had replicated (or was about to replicate) to this
                // client when the event was emitted is on the client by now, unless it is gone
                let snap = x.sim.server_snap();
                let map = x.sim.clients[c].app.world().resource::<ServerEntityMap>();
                if let Some(missing) = em.visible_at_emit.get(&c).and_then(|set| {
                    set.iter().find(|&&b| snap.contains_key(&b) && x.sim.visible_now(c, b) && !map.to_client().contains_key(&Entity::from_bits(b)))
                }) {
                    return Err(self
                        .v(
                            "event-before-spawn",
                            format!(
                                "c{c} observed {kind:?} #{} although entity {} - replicated and visible to it before the event was emitted - has not been spawned on it yet",
                                o.n,
                                fmt_bits(*missing)
                            ),
                        )
                        .feat(format!("kind:{kind:?}")));
                }
            }
            if self.oracles.c05 {
                if !em.recipients.contains(&(c, session)) {
                    return Err(self
                        .v(
                            "wrong-recipient",
                            format!(
                                "c{c} (session {session}) observed {kind:?} #{} but the intended recipients at emission were {:?}",
                                o.n, em.recipients
                            ),
                        )
                        .feat(format!("kind:{kind:?}")));
                }
                if kind.ordered() {
                    let key = (c, o.tag);
                    if let Some(&prev) = x.last_ordered.get(&key) {
                        if o.n < prev {
                            return Err(self
                                .v(
                                    "out-of-order",
                                    format!("c{c} observed {kind:?} #{} after #{prev} on an ordered channel", o.n),
                                )
                                .feat(format!("kind:{kind:?}")));
                        }
                    }
                    x.last_ordered.insert(key, o.n);
                }
            }
            if self.oracles.c04 && !kind.independent() {
                // The event must not be handed over before every update message the server
                // had sent to this client up to the frame that flushed the event.
                let Some(&flush_frame) = x.wire_frame.get(&(c, o.tag, o.n)) else {
                    return Err(self.v(
                        "unknown-event",
                        format!("c{c} observed {kind:?} #{} that never appeared on the wire to it", o.n),
                    ));
                };
                let required = x
                    .sim
                    .wire
                    .iter()
                    .filter(|w| w.client == c && w.channel == UPD && w.server_frame <= flush_frame)
                    .map(|w| w.tick)
                    .last();
                // ticks wrap around: "older" is decided by wrapping distance, the newest update
                // message is the last one sent
                let older = |a: u32, b: u32| (b.wrapping_sub(a) as i32) > 0;
                let required = required.unwrap_or(o.update_tick);
                if older(o.update_tick, required) {
                    return Err(self
                        .v(
                            "event-before-replication",
                            format!(
                                "c{c} was handed {kind:?} #{} at update tick {} but the server had sent it an update message for tick {required} before the event",
                                o.n, o.update_tick
                            ),
                        )
                        .feat(format!("kind:{kind:?}")));
                }
                if let Some(reference) = em.reference {
                    if o.entity_as_server != Some(reference) || !o.entity_alive {
                        return Err(self
                            .v(
                                "wrong-reference",
                                format!(
                                    "c{c} was handed {kind:?} #{} referencing {:?} (as server entity {:?}, alive {}), expected its own entity for {}",
                                    o.n,
                                    o.entity.map(fmt_bits),
                                    o.entity_as_server.map(fmt_bits),
                                    o.entity_alive,
                                    fmt_bits(reference)
                                ),
                            )
                            .feat(format!("kind:{kind:?}")));
                    }
                }
            }
        }
        Ok(())
    }

    fn check_server_observations(&self, x: &mut EvExec) -> Result<(), Violation> {
        let obs = drain_observed(&mut x.sim.server);
        for o in obs {
            x.events_observed += 1;
            o.hash(&mut x.sim.trace);
            let Some(em) = x.emitted.iter().find(|e| e.tag == o.tag && e.n == o.n).cloned() else {
                return Err(self.v(
                    "unknown-event",
                    format!("server observed event #{} (tag {}) that was never emitted", o.n, o.tag),
                ));
            };
            // The server app also observes its own broadcasts locally (the local server is one
            // of the recipients); that path belongs to C13.
            let Some(kind) = em.client_kind else { continue };
            let count = x.server_delivered.entry((o.tag, o.n)).or_insert(0);
            *count += 1;
            if *count > 1 {
                return Err(self
                    .v("delivered-twice", format!("server observed {kind:?} #{} {} times", o.n, *count))
                    .feat(format!("kind:{kind:?}")));
            }
            let (c, _session, conn) = em.sender.unwrap();
            if (self.oracles.c05 || self.oracles.c09) && o.from.is_some_and(|f| x.closed_conns.contains(&f)) {
                return Err(self
                    .v(
                        "event-from-closed-connection",
                        format!(
                            "server logic observed {kind:?} #{} from {} although that connection had been closed before the frame",
                            o.n,
                            o.from.map(fmt_bits).unwrap_or_default()
                        ),
                    )
                    .feat(format!("kind:{kind:?}")));
            }
            if self.oracles.c05 {
                if o.from != Some(conn) {
                    return Err(self
                        .v(
                            "wrong-sender",
                            format!(
                                "server observed {kind:?} #{} from {:?}, but it was sent by c{c} whose connection entity is {}",
                                o.n,
                                o.from.map(fmt_bits),
                                fmt_bits(conn)
                            ),
                        )
                        .feat(format!("kind:{kind:?}")));
                }
                if kind.ordered() {
                    let key = (c, o.tag);
                    if let Some(&prev) = x.server_last_ordered.get(&key) {
                        if o.n < prev {
                            return Err(self
                                .v(
                                    "out-of-order",
                                    format!("server observed {kind:?} #{} from c{c} after #{prev} on an ordered channel", o.n),
                                )
                                .feat(format!("kind:{kind:?}")));
                        }
                    }
                    x.server_last_ordered.insert(key, o.n);
                }
                if let Some(reference) = em.reference {
                    if o.entity != Some(reference) {
                        return Err(self
                            .v(
                                "wrong-reference",
                                format!(
                                    "server observed {kind:?} #{} referencing {:?}, expected {}",
                                    o.n,
                                    o.entity.map(fmt_bits),
                                    fmt_bits(reference)
                                ),
                            )
                            .feat(format!("kind:{kind:?}")));
                    }
                }
            }
        }
        Ok(())
    }

    fn server_frame(&self, x: &mut EvExec, tick: bool) -> Result<(), Violation> {
        x.sim.server_frame(tick).map_err(|v| self.own(v))?;
        if x.sim.last_frame_was_tick {
            let authorized: BTreeSet<(usize, u32)> =
                (0..x.sim.clients.len()).filter(|&c| x.sim.is_authorized(c)).map(|c| (c, x.sim.clients[c].session)).collect();
            for em in x.emitted.iter_mut().filter(|e| e.server_kind.is_some() && e.auth_at_flush.is_none()) {
                em.auth_at_flush = Some(authorized.clone());
            }
        }
        self.scan_server_wire(x)?;
        self.check_server_observations(x)?;
        if self.oracles.c09 {
            if let Some((c, idx)) = x.sim.acks.spurious_acks.first() {
                return Err(self.v(
                    "stale-acknowledgement",
                    format!("c{c} acknowledged mutate message #{idx}, which it was never handed in its current session (something of an earlier session was applied)"),
                ));
            }
        }
        if self.oracles.c10_groups && x.sim.last_frame_was_tick {
            let frame = x.sim.server_frames;
            for c in 0..self.clients() {
                let mut msg_of: BTreeMap<u64, u32> = BTreeMap::new();
                for w in x.sim.wire.iter().rev().take_while(|w| w.server_frame == frame).filter(|w| w.client == c && w.channel == 1) {
                    let Some((_, recs)) = crate::props::c10::entity_records(self.cfg.track, &w.bytes) else { continue };
                    for (bits, _) in recs {
                        msg_of.insert(bits, w.id);
                    }
                }
                // ... and entities that are not related do not share a message that is larger
                // than the client's maximum
                let max = x.sim.clients[c].max_size;
                let related = |a: u64, b: u64| -> bool {
                    let w = x.sim.server.world();
                    let points = |s: u64, t: u64| {
                        let e = Entity::from_bits(s);
                        w.get_entity(e).is_ok_and(|r| {
                            r.get::<ChildOf>().is_some_and(|c| c.parent().to_bits() == t) || r.get::<OwnedBy>().is_some_and(|o| o.0.to_bits() == t)
                        })
                    };
                    points(a, b) || points(b, a)
                };
                for w in x.sim.wire.iter().rev().take_while(|w| w.server_frame == frame).filter(|w| w.client == c && w.channel == 1 && w.bytes.len() > max) {
                    let Some((_, recs)) = crate::props::c10::entity_records(self.cfg.track, &w.bytes) else { continue };
                    let ents: Vec<u64> = recs.iter().map(|r| r.0).collect();
                    // connected components under the relations that exist right now
                    let mut comp: Vec<usize> = (0..ents.len()).collect();
                    for i in 0..ents.len() {
                        for j in 0..i {
                            if related(ents[i], ents[j]) {
                                let (a, b) = (comp[i], comp[j]);
                                for k in comp.iter_mut() {
                                    if *k == a {
                                        *k = b;
                                    }
                                }
                            }
                        }
                    }
                    let groups: BTreeSet<usize> = comp.iter().copied().collect();
                    // (the size clause only speaks about ticks in which every group fits by itself)
                    let header = w.bytes.len() - recs.iter().map(|r| r.1).sum::<usize>();
                    let every_group_fits = groups.iter().all(|g| {
                        header + recs.iter().zip(&comp).filter(|(_, c)| *c == g).map(|(r, _)| r.1).sum::<usize>() <= max
                    });
                    if groups.len() > 1 && every_group_fits {
                        return Err(self
                            .v(
                                "message-too-large",
                                format!(
                                    "tick {}: a mutate message of {} bytes (maximum {max}) for c{c} carries {} entities that form {} unrelated groups",
                                    x.sim.last_tick,
                                    w.bytes.len(),
                                    ents.len(),
                                    groups.len()
                                ),
                            )
                            .feat("kind:size"));
                    }
                }
                for slot in 0..x.sim.ents.len() as u8 {
                    let Some(e) = x.sim.alive(slot) else { continue };
                    let rel = x.sim.server.world().get::<ChildOf>(e).map(|c| c.parent()).or_else(|| x.sim.server.world().get::<OwnedBy>(e).map(|o| o.0));
                    let Some(p) = rel else { continue };
                    if let (Some(a), Some(b)) = (msg_of.get(&e.to_bits()), msg_of.get(&p.to_bits())) {
                        if a != b {
                            return Err(self
                                .v(
                                    "group-in-two-messages",
                                    format!(
                                        "tick {}: e{} and its parent were both mutated, but their mutations were sent to c{c} in different mutate messages",
                                        x.sim.last_tick,
                                        slot + 1
                                    ),
                                )
                                .feat("kind:group"));
                        }
                    }
                }
            }
        }
        if self.oracles.c09 && x.sim.orphan_messages > 0 {
            return Err(self.v(
                "message-for-closed-connection",
                format!("the server produced {} message(s) for a connection that no longer exists", x.sim.orphan_messages),
            ));
        }
        let mut h = std::collections::hash_map::DefaultHasher::new();
        (x.sim.server_tick(), x.sim.in_flight_digest(), x.sim.server_snap()).hash(&mut h);
        x.states.push(h.finish());
        Ok(())
    }

    fn client_frame(&self, x: &mut EvExec, c: usize) -> Result<(), Violation> {
        x.sim.client_frame(c).map_err(|v| self.own(v))?;
        self.scan_client_wire(x, c)?;
        self.check_client_observations(x, c)?;
        let view = x.sim.client_view(c);
        if self.oracles.c16 && x.sim.clients[c].conn.is_some() {
            crate::props::c16::check_sim(self.property, &mut x.sim, c, &view)?;
        }
        if self.oracles.c09 && x.sim.clients[c].conn.is_some() {
            x.sim.check_confirmed(c, &view).map_err(|v| self.own(v))?;
            if self.cfg.track {
                x.sim.check_mutate_ticks(c, &view).map_err(|v| self.own(v))?;
            }
        }
        let mut h = std::collections::hash_map::DefaultHasher::new();
        (c, &view, x.sim.in_flight_digest()).hash(&mut h);
        h.finish().hash(&mut x.sim.trace);
        x.states.push(h.finish());
        Ok(())
    }

    fn lockstep_round(&self, x: &mut EvExec, tick: bool) -> Result<(), Violation> {
        for c in 0..self.clients() {
            for ch in 0..x.sim.client_channels.len() {
                x.sim.deliver_to_server(c, ch, &Sel::All);
            }
        }
        self.server_frame(x, tick)?;
        for c in 0..self.clients() {
            for ch in 0..x.sim.server_channels.len() {
                x.sim.deliver_to_client(c, ch, &Sel::All);
            }
            self.client_frame(x, c)?;
        }
        Ok(())
    }

    /// End-of-closure obligations.
    fn final_check(&self, x: &mut EvExec) -> Result<(), Violation> {
        if self.oracles.c05 || self.oracles.c04 {
            for em in x.emitted.clone() {
                if let Some(kind) = em.server_kind {
                    if !kind.reliable() {
                        continue;
                    }
                    for &(c, session) in &em.recipients {
                        // Released: the recipient's session ended, or (dependent kinds) it was
                        // not authorized when the event was flushed.
                        if x.sim.clients[c].session != session || x.sim.clients[c].conn.is_none() {
                            continue;
                        }
                        // Dependent kinds need the recipient to be authorized when the event
                        // is flushed; without authentication connecting authorizes at once.
                        let on_wire = x.wire_frame.contains_key(&(c, em.tag, em.n));
                        // (a recipient that was already authorized at emission is authorized at the flush)
                        let required = kind.independent() || self.cfg.auth == Auth::None || on_wire || em.auth_at_emit.contains(&c);
                        if !required {
                            continue;
                        }
                        if let Some(r) = em.reference {
                            // An event whose reference cannot be resolved any more is withheld.
                            // (an entity the recipient could not see at emission has no
                            // counterpart to translate to: the event is refused on arrival)
                            let still = x.sim.server_snap().contains_key(&r)
                                && x.sim.visible_now(c, r)
                                && em.ref_visible_at_emit.contains(&c);
                            if !still {
                                continue;
                            }
                        }
                        let got = x.delivered.get(&(c, session, em.tag, em.n)).copied().unwrap_or(0);
                        if got != 1 {
                            return Err(self
                                .v(
                                    "not-delivered",
                                    format!(
                                        "{kind:?} #{} was emitted for c{c} over a reliable channel and everything was delivered, but c{c} observed it {got} times",
                                        em.n
                                    ),
                                )
                                .feat(format!("kind:{kind:?}")));
                        }
                    }
                } else if let Some(kind) = em.client_kind {
                    if !kind.reliable() || !self.oracles.c05 {
                        continue;
                    }
                    let (c, session, _) = em.sender.unwrap();
                    if x.sim.clients[c].session != session || x.sim.clients[c].conn.is_none() {
                        continue;
                    }
                    let got = x.server_delivered.get(&(em.tag, em.n)).copied().unwrap_or(0);
                    if got != 1 {
                        return Err(self
                            .v(
                                "not-delivered",
                                format!("{kind:?} #{} from c{c} was observed {got} times by the server", em.n),
                            )
                            .feat(format!("kind:{kind:?}")));
                    }
                }
            }
        }
        if self.oracles.c07 {
            for &c in &self.cfg.mismatch {
                let Some(conn) = x.sim.clients[c].conn else { continue };
                if x.sim.is_authorized(c) {
                    return Err(self.v(
                        "mismatch-authorized",
                        format!("c{c} was built with a different protocol but got authorized"),
                    ));
                }
                let notified = x.sim.wire.iter().any(|w| w.client == c && w.channel == 2);
                if !notified {
                    return Err(self.v(
                        "mismatch-not-notified",
                        format!("c{c} sent a different protocol hash but no ProtocolMismatch was sent to it"),
                    ));
                }
                let asked = x
                    .sim
                    .server
                    .world()
                    .resource::<DisconnectSeen>()
                    .0
                    .contains(&conn.to_bits());
                if !asked {
                    return Err(self.v(
                        "mismatch-no-disconnect-request",
                        format!("c{c} sent a different protocol hash but no DisconnectRequest names it"),
                    ));
                }
            }
        }
        if self.oracles.c07 && self.cfg.auth == Auth::ProtocolCheck {
            // the notification goes to the mismatching client only
            for c in 0..self.clients() {
                if !self.cfg.mismatch.contains(&c) && x.sim.wire.iter().any(|w| w.client == c && w.channel == 2) {
                    return Err(self.v(
                        "mismatch-notified-wrong-client",
                        format!("c{c} was built with the server's protocol but a ProtocolMismatch notification was sent to it"),
                    ));
                }
            }
        }
        if (self.oracles.c07 || self.oracles.c09) && self.cfg.auth != Auth::Custom {
            // A connected client with the same protocol is authorized once its handshake went through.
            for c in 0..self.clients() {
                if x.sim.clients[c].conn.is_some() && !self.cfg.mismatch.contains(&c) && !x.sim.is_authorized(c) {
                    return Err(self.v(
                        "not-authorized",
                        format!("c{c} is connected with the same protocol and everything was delivered, but it was never authorized"),
                    ));
                }
            }
        }
        if self.oracles.convergence {
            let server = x.sim.server_snap();
            for c in 0..self.clients() {
                if !x.sim.is_authorized(c) {
                    continue;
                }
                let view = x.sim.client_view(c);
                x.sim.converged(c, &server, &view, true).map_err(|v| self.own(v))?;
            }
        }
        Ok(())
    }
}

impl Scenario for EvCell {
    type Exec = EvExec;

    fn name(&self) -> String {
        self.name.clone()
    }
    fn cell(&self) -> serde_json::Value {
        serde_json::to_value(self).unwrap()
    }

    fn start(&self) -> EvExec {
        let mut sim = Sim::new(&self.cfg);
        for &c in &self.connect_at_start {
            sim.connect(c);
        }
        let mut x = EvExec {
            sim,
            round: 0,
            phase: Phase::Op,
            round_op: EvOp::Nop,
            round_tick: true,
            line: String::new(),
            next_n: 1,
            emitted: vec![],
            delivered: BTreeMap::new(),
            last_ordered: BTreeMap::new(),
            server_delivered: BTreeMap::new(),
            server_last_ordered: BTreeMap::new(),
            wire_frame: BTreeMap::new(),
            cwire_frame: BTreeMap::new(),
            wire_seen: 0,
            states: vec![],
            events_emitted: 0,
            events_observed: 0,
            ops_applied: 0,
            late_disconnect: None,
            setup_violation: None,
            orphans: BTreeMap::new(),
            premapped: BTreeSet::new(),
            closed_conns: BTreeSet::new(),
        };
        let r = (|| -> Result<(), Violation> {
            self.lockstep_round(&mut x, true)?;
            for &op in &self.init {
                assert!(x.sim.enabled(op), "initial op {op:?} not enabled in {}", self.name);
                x.sim.apply_op(op);
            }
            for _ in 0..3 {
                self.lockstep_round(&mut x, true)?;
            }
            self.lockstep_round(&mut x, false)?;
            Ok(())
        })();
        if let Err(mut v) = r {
            v.detail = format!("during the cell's set-up (lock-step, before the first operation): {}", v.detail);
            x.setup_violation = Some(v);
            return x;
        }
        x.sim.steps.clear();
        x.states.clear();
        if self.rounds == 0 {
            x.phase = Phase::Done;
        }
        x
    }

    fn next(&self, x: &mut EvExec) -> Option<ChoicePoint> {
        if x.setup_violation.is_some() {
            return None;
        }
        match x.phase {
            Phase::Op => Some(ChoicePoint::history(
                "op",
                self.enabled_ops(x).iter().map(|o| o.show()).collect(),
            )),
            Phase::Tick => Some(ChoicePoint::history("tick", vec!["tick".into(), "no tick".into()])),
            Phase::ToServer(c) => {
                let n = self.events_in_flight_to_server(x, c);
                let mut alts = vec![("deliver".to_string(), 0)];
                if n > 0 && self.env.hold_client_events {
                    alts.push(("hold client events".into(), 1));
                    if self.env.reorder && n > 1 {
                        alts.push(("reversed".into(), 1));
                    }
                }
                if self.env.hold_acks && !x.sim.clients[c].c2s[0].is_empty() {
                    alts.push(("hold acks".into(), 1));
                }
                Some(ChoicePoint::env("to-server", alts))
            }
            Phase::Upd(c) => {
                let n = self.deliverable_updates(x, c);
                let mut alts = vec![("all".to_string(), 0)];
                for k in 1..=self.env.hold_updates.min(n) {
                    alts.push((format!("hold last {k} of {n}"), 1));
                }
                if self.env.hold_mutations && !x.sim.clients[c].s2c[MUT].is_empty() {
                    alts.push(("hold mutations".into(), 1));
                    alts.push(("drop mutations".into(), 1));
                }
                Some(ChoicePoint::env("upd", alts))
            }
            Phase::Events(c) => {
                let n = self.events_in_flight_to_client(x, c);
                let mut alts = vec![("all".to_string(), 0)];
                if n > 0 {
                    if self.env.hold_events {
                        alts.push(("hold events".into(), 1));
                    }
                    if self.env.reorder && n > 1 {
                        alts.push(("reversed".into(), 1));
                    }
                    if self.env.drop_unreliable {
                        alts.push(("drop unreliable".into(), 1));
                    }
                }
                Some(ChoicePoint::env("events", alts))
            }
            Phase::ServerFrame | Phase::ClientFrame(_) => unreachable!(),
            Phase::Done => None,
        }
    }

    fn apply(&self, x: &mut EvExec, alt: usize) -> Result<(), Violation> {
        match x.phase {
            Phase::Op => {
                let ops = self.enabled_ops(x);
                let op = ops[alt];
                x.round_op = op;
                x.round_tick = true;
                if op != EvOp::Nop {
                    x.ops_applied += 1;
                }
                // observers of the library run inside the operation: a panic there is the library's
                if let Err((msg, loc)) = guarded(|| self.apply_ev_op(x, op)) {
                    return Err(Violation::new(self.property, "panic", format!("the operation `{}` panicked inside the library: {msg} ({})", op.show(), short_loc(&loc)))
                        .feat("side:server")
                        .feat(format!("at:{}", short_loc(&loc))));
                }
                self.advance(x);
            }
            Phase::Tick => {
                x.round_tick = alt == 0;
                self.advance(x);
            }
            Phase::ToServer(c) => {
                let label = self.next(x).unwrap().alts[alt].clone();
                // acks flow unless this alternative holds them
                if label != "hold acks" {
                    x.sim.deliver_to_server(c, 0, &Sel::All);
                }
                for (kind, ch) in self.client_event_channels(x) {
                    let n = x.sim.clients[c].c2s[ch].len();
                    match label.as_str() {
                        "deliver" | "hold acks" => {
                            x.sim.deliver_to_server(c, ch, &Sel::All);
                        }
                        "reversed" if !kind.ordered() => {
                            x.sim.deliver_to_server(c, ch, &Sel::Indices((0..n).rev().collect()));
                        }
                        "reversed" => {
                            x.sim.deliver_to_server(c, ch, &Sel::All);
                        }
                        _ => {}
                    }
                }
                // the protocol hash trigger channel (default auth) sits before the vocabulary
                if self.cfg.auth == Auth::ProtocolCheck {
                    if label == "deliver" || label == "hold acks" {
                        x.sim.deliver_to_server(c, 1, &Sel::All);
                    }
                }
                if alt > 0 {
                    x.line.push_str(&format!(" c{c}->server: {label};"));
                }
                if x.late_disconnect == Some(c) {
                    x.late_disconnect = None;
                    if let Some(conn) = x.sim.clients[c].conn {
                        x.closed_conns.insert(conn.to_bits());
                    }
                    // (as a backend does it: a despawn command issued in its receive set of the
                    // frame that also finds the client's last messages in the mailbox)
                    x.sim.disconnect_in_receive(c);
                    x.line.push_str(&format!(" c{c} dropped after delivery;"));
                }
                self.advance(x);
            }
            Phase::Upd(c) => {
                let label = self.next(x).unwrap().alts[alt].clone();
                let n = self.deliverable_updates(x, c);
                if label == "hold mutations" {
                    x.line.push_str(" mutations held;");
                    x.sim.deliver_to_client(c, UPD, &Sel::Prefix(n));
                } else if label == "drop mutations" {
                    x.line.push_str(" mutations lost;");
                    x.sim.deliver_to_client(c, UPD, &Sel::Prefix(n));
                    x.sim.clients[c].s2c[MUT].clear();
                } else {
                    let k = n - alt;
                    if alt > 0 {
                        x.line.push_str(&format!(" updates {k} of {n};"));
                    }
                    x.sim.deliver_to_client(c, UPD, &Sel::Prefix(k));
                    x.sim.deliver_to_client(c, MUT, &Sel::All);
                }
                self.advance(x);
            }
            Phase::Events(c) => {
                let label = self.next(x).unwrap().alts[alt].clone();
                let chans: Vec<(Option<SK>, usize)> = {
                    let known = self.server_event_channels(x);
                    (2..x.sim.server_channels.len())
                        .map(|ch| (known.iter().find(|(_, c)| *c == ch).map(|(k, _)| *k), ch))
                        .collect()
                };
                for (kind, ch) in chans {
                    let n = x.sim.clients[c].s2c[ch].len();
                    let unreliable = kind.is_some_and(|k| !k.reliable());
                    let ordered = kind.is_none_or(|k| k.ordered());
                    match label.as_str() {
                        "all" => {
                            x.sim.deliver_to_client(c, ch, &Sel::All);
                        }
                        "reversed" if !ordered => {
                            x.sim.deliver_to_client(c, ch, &Sel::Indices((0..n).rev().collect()));
                        }
                        "reversed" => {
                            x.sim.deliver_to_client(c, ch, &Sel::All);
                        }
                        "drop unreliable" if unreliable => {
                            x.sim.clients[c].s2c[ch].clear();
                        }
                        "drop unreliable" => {
                            x.sim.deliver_to_client(c, ch, &Sel::All);
                        }
                        _ => {}
                    }
                }
                if alt > 0 {
                    x.line.push_str(&format!(" events: {label};"));
                }
                self.advance(x);
            }
            _ => unreachable!(),
        }
        loop {
            match x.phase {
                Phase::ServerFrame => {
                    let line = format!(
                        "round {}: server: {}, {}{}",
                        x.round + 1,
                        x.round_op.show(),
                        if x.round_tick { "tick" } else { "no tick" },
                        std::mem::take(&mut x.line)
                    );
                    x.sim.note(line);
                    self.server_frame(x, x.round_tick)?;
                    let sent: Vec<String> = x
                        .sim
                        .wire
                        .iter()
                        .rev()
                        .take_while(|w| w.server_frame == x.sim.server_frames)
                        .map(|w| format!("c{}/ch{}:{}B", w.client, w.channel, w.bytes.len()))
                        .collect();
                    let tick = x.sim.server_tick();
                    x.sim.note(format!("    server tick {tick} sent [{}]", sent.join(" ")));
                    self.advance(x);
                }
                Phase::ClientFrame(c) => {
                    let line = format!("  client c{c}:{}", std::mem::take(&mut x.line));
                    x.sim.note(line);
                    if x.sim.clients[c].conn.is_some() {
                        self.client_frame(x, c)?;
                    } else {
                        // A disconnected client still runs frames.
                        self.client_frame(x, c)?;
                    }
                    let view = x.sim.client_view(c);
                    let seen: Vec<String> = x
                        .delivered
                        .iter()
                        .filter(|(k, _)| k.0 == c)
                        .map(|(k, n)| format!("#{}x{}", k.3, n))
                        .collect();
                    x.sim.note(format!("    view {} events so far [{}]", view.show(), seen.join(" ")));
                    self.advance(x);
                }
                _ => break,
            }
        }
        Ok(())
    }

    fn finish(&self, x: &mut EvExec) -> Result<(), Violation> {
        if let Some(v) = x.setup_violation.take() {
            return Err(v);
        }
        x.sim.note("closure: lock-step rounds with ticks, everything delivered");
        for _ in 0..self.closure_rounds {
            self.lockstep_round(x, true)?;
        }
        self.final_check(x)
    }

    fn summary(&self, x: &mut EvExec) -> Summary {
        let mut oh = std::collections::hash_map::DefaultHasher::new();
        x.delivered.hash(&mut oh);
        x.server_delivered.hash(&mut oh);
        x.sim.server_snap().hash(&mut oh);
        for c in 0..self.clients() {
            let view = x.sim.client_view(c);
            view.ents
                .iter()
                .map(|(e, ce)| (*e, ce.comps.clone()))
                .collect::<Vec<_>>()
                .hash(&mut oh);
        }
        Summary {
            outcome: oh.finish(),
            nontrivial: (x.events_emitted > 0 && (x.events_observed > 0 || self.oracles.c07))
                || (self.oracles.c09 && x.ops_applied > 0),
            states: std::mem::take(&mut x.states),
            transitions: x.sim.transitions,
            trace_digest: x.sim.trace.clone().finish(),
            steps: x.sim.steps.clone(),
        }
    }
}
