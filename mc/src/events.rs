//! Event vocabulary (filled in by the event cells).
use bevy::prelude::*;

pub fn register(_app: &mut App) {}
