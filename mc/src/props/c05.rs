//! C05: remote events exactly once, in order, to the intended recipients only.
use crate::{
    check::{CellPlan, Tier, plan},
    events::*,
    sim::*,
};

fn base(name: &str, clients: usize, connected: Vec<usize>) -> EvCell {
    let mut cfg = Cfg::default();
    cfg.events = true;
    cfg.clients = vec![1200; clients];
    EvCell {
        name: format!("c05-{name}"),
        property: "C05",
        cfg,
        connect_at_start: connected,
        init: vec![],
        alphabet: vec![EvOp::Nop],
        rounds: 3,
        tick_choice: true,
        env: EvEnv { hold_updates: 0, hold_events: true, reorder: true, drop_unreliable: true, hold_client_events: true, hold_mutations: false, hold_acks: false, update_latency: 0, update_batch: 0 },
        oracles: EvOracles { c05: true, ..Default::default() },
        closure_rounds: 4,
    }
}

pub fn cells(tier: Tier) -> Vec<CellPlan> {
    let q = tier.quick();
    let mut v = Vec::new();

    // Recipient sets with clients joining and leaving at arbitrary points.
    let mut c = base("recipients", 3, vec![0]);
    c.alphabet = vec![
        EvOp::Nop,
        EvOp::Connect(1),
        EvOp::Disconnect(1),
        EvOp::Connect(2),
        EvOp::Disconnect(0),
        EvOp::EmitS(SK::E1, Mode::Broadcast, None),
        EvOp::EmitS(SK::E1, Mode::Except(0), None),
        EvOp::EmitS(SK::E1, Mode::Direct(1), None),
        EvOp::EmitS(SK::EI, Mode::Broadcast, None),
        EvOp::EmitS(SK::T1, Mode::Except(1), None),
        EvOp::TouchConnection(0),
        EvOp::ConnectSlowly(2),
        EvOp::Burst(0),
    ];
    c.rounds = if q { 3 } else { 4 };
    v.push(plan(c.clone(), if q { 1 } else { 1 }, 3.0));

    // The same under the slowest event-buffer rotation (events linger for several frames).
    let mut c2 = c.clone();
    c2.name = "c05-recipients-dt5".into();
    c2.cfg.dt_ms = 5;
    c2.rounds = 3;
    v.push(plan(c2, if q { 0 } else { 1 }, 1.0));

    // Three connected clients that are authorized one by one in any order (custom
    // authorization): a connected but not yet authorized client in the middle of the server's
    // client list must not change who else receives an event.
    let mut c3 = base("recipients-custom", 3, vec![0, 1, 2]);
    c3.cfg.auth = Auth::Custom;
    c3.alphabet = vec![
        EvOp::Nop,
        EvOp::Authorize(0),
        EvOp::Authorize(1),
        EvOp::Authorize(2),
        EvOp::EmitS(SK::E1, Mode::Broadcast, None),
        EvOp::EmitS(SK::E1, Mode::Except(0), None),
        EvOp::EmitS(SK::E1, Mode::Direct(2), None),
        EvOp::EmitS(SK::EI, Mode::Except(0), None),
        EvOp::EmitS(SK::T1, Mode::Except(2), None),
    ];
    c3.tick_choice = false;
    c3.rounds = if q { 3 } else { 4 };
    v.push(plan(c3, if q { 0 } else { 1 }, 1.0));

    // Ordering and at-most-once across channel kinds.
    let mut c = base("order", 1, vec![0]);
    c.alphabet = vec![
        EvOp::Nop,
        EvOp::EmitS(SK::E1, Mode::Broadcast, None),
        EvOp::EmitS(SK::E2, Mode::Broadcast, None),
        EvOp::EmitS(SK::E3, Mode::Broadcast, None),
        EvOp::EmitS(SK::T1, Mode::Broadcast, None),
        EvOp::EmitS(SK::EI, Mode::Broadcast, None),
    ];
    c.rounds = if q { 3 } else { 4 };
    v.push(plan(c, 2, 2.0));

    // Client -> server: sender identity, order, exactly once, reconnects.
    let mut c = base("client", 2, vec![0, 1]);
    c.alphabet = vec![
        EvOp::Nop,
        EvOp::EmitC(0, CK::C1, None),
        EvOp::EmitC(1, CK::C1, None),
        EvOp::EmitC(0, CK::C2, None),
        EvOp::EmitC(1, CK::C3, None),
        EvOp::EmitC(0, CK::CT, None),
        EvOp::Disconnect(1),
        EvOp::LateDisconnect(1),
        EvOp::Connect(1),
        EvOp::ConnectSlowlyEmitting(1),
    ];
    c.rounds = if q { 3 } else { 4 };
    v.push(plan(c, if q { 1 } else { 2 }, 2.0));

    // Update channel two rounds behind: events of several ticks pile up in the client-side queue
    // and are released together with newer ones.
    let mut c = base("order-lag2", 1, vec![0]);
    c.init = vec![Op::Spawn(0, 1 << TA)];
    c.alphabet = vec![
        EvOp::Nop,
        EvOp::World(Op::Ins(0, TB)),
        EvOp::World(Op::Rm(0, TB)),
        EvOp::EmitS(SK::E1, Mode::Broadcast, None),
        EvOp::EmitS(SK::T1, Mode::Broadcast, None),
    ];
    c.env = EvEnv { hold_updates: 0, hold_events: false, reorder: false, drop_unreliable: false, hold_client_events: false, hold_mutations: false, hold_acks: false, update_latency: 2, update_batch: 0 };
    c.tick_choice = false;
    c.rounds = if q { 6 } else { 7 };
    c.closure_rounds = 6;
    v.push(plan(c, 0, 2.0));

    // Update channel delivered in bursts (every 5th round): several queued tick groups are
    // released in one frame together with directly deliverable newer events.
    let mut c = base("order-burst5", 1, vec![0]);
    c.init = vec![Op::Spawn(0, 1 << TA)];
    c.alphabet = vec![
        EvOp::Nop,
        EvOp::World(Op::Ins(0, TB)),
        EvOp::World(Op::Rm(0, TB)),
        EvOp::EmitS(SK::E1, Mode::Broadcast, None),
    ];
    c.env = EvEnv { hold_updates: 0, hold_events: false, reorder: false, drop_unreliable: false, hold_client_events: false, hold_mutations: false, hold_acks: false, update_latency: 0, update_batch: 5 };
    c.tick_choice = false;
    c.rounds = if q { 6 } else { 7 };
    c.closure_rounds = 6;
    v.push(plan(c, 0, 2.0));

    // Entity references in both directions.
    let mut c = base("mapped", 2, vec![0, 1]);
    c.init = vec![Op::Spawn(0, 1 << TA)];
    c.alphabet = vec![
        EvOp::Nop,
        EvOp::EmitS(SK::EM, Mode::Broadcast, Some(0)),
        EvOp::EmitS(SK::T1, Mode::Direct(1), Some(0)),
        EvOp::EmitC(0, CK::CM, Some(0)),
        EvOp::EmitC(1, CK::CT, Some(0)),
        EvOp::World(Op::Spawn(1, 1 << TA)),
        EvOp::EmitS(SK::EM, Mode::Broadcast, Some(1)),
        EvOp::EmitC(0, CK::CM, Some(1)),
        EvOp::EmitCAfterBad(0, CK::CT, None),
        EvOp::EmitCAfterBad(1, CK::CM, Some(0)),
    ];
    c.env.hold_updates = 1;
    c.rounds = if q { 3 } else { 4 };
    v.push(plan(c, 1, 2.0));

    // One broadcast re-stamped for recipients whose update ticks have different encoded sizes.
    // (... 1 | 2 bytes, and the other size boundaries of the tick's encoding: 2 | 3, 3 | 4, 4 | 5 bytes)
    for off in [124, 126, (1 << 14) - 3, (1 << 21) - 3, (1 << 28) - 3] {
        v.push(plan(super::c04::ticks_3c("C05", off, q), if q { 0 } else { 1 }, 1.0));
    }
    v
}

pub const RULE: &str = "all sequences of emissions (7 server kinds x 3 send modes, 5 client kinds) and connect/disconnect operations over <= r rounds x tick/no-tick x per-channel hold / reverse / drop schedules with <= d deviations, on real Apps with 1-3 clients (also three clients authorized one by one in any order under custom authorization); reference model = intended-recipient set fixed at emission; non-trivial = at least one event emitted and one observed; distinct = distinct delivery multisets";
