//! C04: server events never outrun the replication they depend on.
use crate::{
    check::{CellPlan, Tier, plan},
    events::*,
    sim::*,
};

pub fn cells(tier: Tier) -> Vec<CellPlan> {
    let q = tier.quick();
    let mut v = Vec::new();
    for clients in [1usize, 2] {
        let mut cfg = Cfg::default();
        cfg.events = true;
        cfg.clients = vec![1200; clients];
        let c = EvCell {
            name: format!("c04-overtake-{clients}c"),
            property: "C04",
            cfg,
            connect_at_start: (0..clients).collect(),
            init: vec![Op::Spawn(0, 1 << TA)],
            alphabet: vec![
                EvOp::Nop,
                EvOp::World(Op::Spawn(1, 1 << TA)),
                EvOp::World(Op::Ins(0, TB)),
                EvOp::World(Op::Despawn(1)),
                EvOp::EmitS(SK::E1, Mode::Broadcast, None),
                EvOp::EmitS(SK::E2, Mode::Broadcast, None),
                EvOp::EmitS(SK::EM, Mode::Broadcast, Some(1)),
                EvOp::EmitS(SK::T1, Mode::Broadcast, Some(1)),
                EvOp::EmitS(SK::EM, Mode::Broadcast, Some(0)),
                EvOp::EmitS(SK::EI, Mode::Broadcast, None),
                EvOp::EmitS(SK::TM, Mode::Broadcast, Some(1)),
            ],
            rounds: if q || clients == 2 { 3 } else { 4 },
            tick_choice: true,
            env: EvEnv { hold_updates: 3, hold_events: true, reorder: true, drop_unreliable: false, hold_client_events: false, hold_mutations: false, hold_acks: false, update_latency: 0, update_batch: 0 },
            oracles: EvOracles { c04: true, ..Default::default() },
            closure_rounds: 4,
        };
        let dev = if clients == 1 { if q { 2 } else { 3 } } else { if q { 1 } else { 2 } };
        v.push(plan(c, dev, 2.0));
    }
    // Three clients with different last update ticks (whitelist): a broadcast is stamped per client.
    v.push(plan(ticks_3c("C04", 0, q), 1, 2.0));
    // ... with the clients' update ticks on both sides of a varint size boundary (127 | 128)
    v.push(plan(ticks_3c("C04", 125, q), 1, 1.0));
    // ... and of the last one (4 | 5 bytes)
    v.push(plan(ticks_3c("C04", (1 << 28) - 3, q), if q { 0 } else { 1 }, 1.0));
    // Ticks from the timer policy (`MaxTickRate`): a tick every other frame, events and structural
    // changes inside one tick span.
    for (hz, dt) in [(50u16, 10u64), (30, 10)] {
        let mut cfg = Cfg::default();
        cfg.events = true;
        cfg.tick = TickWiring::MaxTickRate(hz);
        cfg.dt_ms = dt;
        let c = EvCell {
            name: format!("c04-timer-{hz}hz-dt{dt}"),
            property: "C04",
            cfg,
            connect_at_start: vec![0],
            init: vec![Op::Spawn(0, 1 << TA)],
            alphabet: vec![
                EvOp::Nop,
                EvOp::World(Op::Spawn(1, 1 << TA)),
                EvOp::World(Op::Ins(0, TB)),
                EvOp::EmitS(SK::E1, Mode::Broadcast, None),
                EvOp::EmitS(SK::EM, Mode::Broadcast, Some(1)),
                EvOp::EmitS(SK::T1, Mode::Broadcast, Some(1)),
            ],
            rounds: if q { 4 } else { 5 },
            tick_choice: false,
            env: EvEnv { hold_updates: 1, hold_events: true, reorder: false, drop_unreliable: false, hold_client_events: false, hold_mutations: false, hold_acks: false, update_latency: 0, update_batch: 0 },
            oracles: EvOracles { c04: true, c05: true, ..Default::default() },
            closure_rounds: 8,
        };
        // The same cell under every order of the server's send-side systems that the library's
        // declared constraints leave open (Bevy may pick either; unrelated systems added by a
        // game shift the choice): each open pair is resolved both ways.
        if hz == 30 {
            for (choice, desc) in order_choices(&c.cfg).into_iter().filter(|(ch, _)| ch.0) {
                let mut c = c.clone();
                c.cfg.order_choice = Some(choice);
                c.name = format!("c04-timer-30hz-order[{desc}]");
                v.push(plan(c, 0, 0.5));
            }
        }
        v.push(plan(c, if q { 0 } else { 1 }, 1.0));
    }
    // The first running frame after a (re)start, with a client accepted and an event emitted
    // before it, on a frame without a tick.
    {
        let mut cfg = Cfg::default();
        cfg.events = true;
        let c = EvCell {
            name: "c04-first-running-frame".into(),
            property: "C04",
            cfg,
            connect_at_start: vec![0],
            init: vec![Op::Spawn(0, (1 << TA) | (1 << TB))],
            alphabet: vec![
                EvOp::Nop,
                EvOp::StopServer,
                EvOp::StartServerWith(0),
                EvOp::StartServerWithEmit(0),
                EvOp::World(Op::Spawn(1, 1 << TA)),
                EvOp::EmitS(SK::E1, Mode::Broadcast, None),
                EvOp::EmitS(SK::EM, Mode::Broadcast, Some(0)),
            ],
            rounds: if q { 4 } else { 5 },
            tick_choice: true,
            env: EvEnv { hold_updates: 0, hold_events: false, reorder: false, drop_unreliable: false, hold_client_events: false, hold_mutations: false, hold_acks: false, update_latency: 0, update_batch: 0 },
            oracles: EvOracles { c04: true, c05: true, ..Default::default() },
            closure_rounds: 5,
        };
        v.push(plan(c, 0, 1.0));
    }
    // Update channel one and two rounds behind the event channels by default.
    for lat in [1u32, 2] {
        let mut cfg = Cfg::default();
        cfg.events = true;
        let c = EvCell {
            name: format!("c04-lag{lat}"),
            property: "C04",
            cfg,
            connect_at_start: vec![0],
            init: vec![Op::Spawn(0, 1 << TA)],
            alphabet: vec![
                EvOp::Nop,
                EvOp::World(Op::Spawn(1, 1 << TA)),
                EvOp::World(Op::Ins(0, TB)),
                EvOp::World(Op::Rm(0, TB)),
                EvOp::EmitS(SK::E1, Mode::Broadcast, None),
                EvOp::EmitS(SK::EM, Mode::Broadcast, Some(1)),
                EvOp::EmitS(SK::T1, Mode::Broadcast, Some(1)),
            ],
            rounds: if q { 5 } else { 6 },
            tick_choice: false,
            env: EvEnv { hold_updates: 0, hold_events: false, reorder: false, drop_unreliable: false, hold_client_events: false, hold_mutations: false, hold_acks: false, update_latency: lat, update_batch: 0 },
            oracles: EvOracles { c04: true, c05: true, ..Default::default() },
            closure_rounds: 6,
        };
        v.push(plan(c, 0, 2.0));
    }
    // The same lagging cell with the server tick crossing the 32-bit wrap point.
    {
        let mut cfg = Cfg::default();
        cfg.events = true;
        cfg.tick_offset = u32::MAX - 5;
        let c = EvCell {
            name: "c04-lag3-wrap".into(),
            property: "C04",
            cfg,
            connect_at_start: vec![0],
            init: vec![Op::Spawn(0, 1 << TA)],
            alphabet: vec![
                EvOp::Nop,
                EvOp::World(Op::Ins(0, TB)),
                EvOp::World(Op::Rm(0, TB)),
                EvOp::EmitS(SK::E1, Mode::Broadcast, None),
                EvOp::EmitS(SK::EM, Mode::Broadcast, Some(0)),
            ],
            rounds: if q { 5 } else { 6 },
            tick_choice: false,
            env: EvEnv { hold_updates: 0, hold_events: false, reorder: false, drop_unreliable: false, hold_client_events: false, hold_mutations: false, hold_acks: false, update_latency: 3, update_batch: 0 },
            oracles: EvOracles { c04: true, c05: true, ..Default::default() },
            closure_rounds: 6,
        };
        v.push(plan(c, 0, 1.0));
    }
    // Entity ids of the two worlds coincide: the client's replica of e1 has the very bits of the
    // server's e2, which this client cannot see (whitelist). References to e2 are unresolvable
    // for it until e2 becomes visible, whatever its own world holds under the same bits.
    {
        let mut cfg = Cfg::default();
        cfg.events = true;
        cfg.vis = Vis::Whitelist;
        let c = EvCell {
            name: "c04-ids-coincide".into(),
            property: "C04",
            cfg,
            connect_at_start: vec![0],
            init: vec![Op::Spawn(1, 1 << TA), Op::AlignNextId(0, 1), Op::Spawn(0, 1 << TA), Op::Vis(0, 0, true)],
            alphabet: vec![
                EvOp::Nop,
                EvOp::World(Op::Vis(0, 1, true)),
                EvOp::EmitS(SK::EM, Mode::Broadcast, Some(1)),
                EvOp::EmitS(SK::TM, Mode::Broadcast, Some(1)),
                EvOp::EmitS(SK::T1, Mode::Broadcast, Some(1)),
                EvOp::EmitS(SK::EM, Mode::Broadcast, Some(0)),
            ],
            rounds: if q { 3 } else { 4 },
            tick_choice: false,
            env: EvEnv { hold_updates: 1, hold_events: true, reorder: false, drop_unreliable: false, hold_client_events: false, hold_mutations: false, hold_acks: false, update_latency: 0, update_batch: 0 },
            oracles: EvOracles { c04: true, ..Default::default() },
            closure_rounds: 4,
        };
        v.push(plan(c, if q { 1 } else { 2 }, 1.0));
    }
    v
}

/// Three clients under a whitelist whose last update ticks differ; `offset` shifts the tick range.
pub fn ticks_3c(property: &'static str, offset: u32, q: bool) -> EvCell {
    let mut cfg = Cfg::default();
    cfg.events = true;
    cfg.vis = Vis::Whitelist;
    cfg.clients = vec![1200; 3];
    cfg.tick_offset = offset;
    EvCell {
        name: format!("{}-ticks-3c-off{offset}", property.to_lowercase()),
        property,
        cfg,
        connect_at_start: vec![0, 1, 2],
        init: vec![Op::Spawn(0, 1 << TA), Op::Vis(0, 0, true), Op::Vis(1, 0, true), Op::Vis(2, 0, true), Op::Spawn(1, 1 << TA)],
        alphabet: vec![
            EvOp::Nop,
            EvOp::World(Op::Vis(1, 1, true)),
            EvOp::World(Op::Vis(2, 1, true)),
            EvOp::World(Op::Vis(0, 1, true)),
            EvOp::EmitS(SK::E1, Mode::Broadcast, None),
            EvOp::EmitS(SK::EM, Mode::Broadcast, Some(0)),
            // a reference to an entity that only some of the recipients can see
            EvOp::EmitS(SK::EM, Mode::Broadcast, Some(1)),
            EvOp::Burst(1),
        ],
        rounds: if q { 3 } else { 4 },
        tick_choice: true,
        env: EvEnv { hold_updates: 1, hold_events: false, reorder: false, drop_unreliable: false, hold_client_events: false, hold_mutations: false, hold_acks: false, update_latency: 0, update_batch: 0 },
        oracles: EvOracles { c04: true, c05: true, ..Default::default() },
        closure_rounds: 4,
    }
}

pub const RULE: &str = "histories of structural operations and emissions of dependent / mapped / independent events and triggers (before or after the spawn they reference, on tick and non-tick frames) x relative delays between the update channel (up to 3 pending messages) and the event channels with <= d deviations; at every delivery the client's update tick is compared with the last update message the server had sent before the event and the timer-driven cell is repeated under both resolutions of every pair of send-side library systems whose order the declared constraints leave open; every reference is resolved through the entity map (including a client whose replica has the very bits of a server entity hidden from it); non-trivial = an event was emitted and observed";
