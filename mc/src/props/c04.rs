//! C04: server events never outrun the replication they depend on.
use crate::{
    check::{CellPlan, Tier, plan},
    events::*,
    sim::*,
};

pub fn cells(tier: Tier) -> Vec<CellPlan> {
    let q = tier.quick();
    let mut v = Vec::new();
    for clients in [1usize, 2] {
        let mut cfg = Cfg::default();
        cfg.events = true;
        cfg.clients = vec![1200; clients];
        let c = EvCell {
            name: format!("c04-overtake-{clients}c"),
            property: "C04",
            cfg,
            connect_at_start: (0..clients).collect(),
            init: vec![Op::Spawn(0, 1 << TA)],
            alphabet: vec![
                EvOp::Nop,
                EvOp::World(Op::Spawn(1, 1 << TA)),
                EvOp::World(Op::Ins(0, TB)),
                EvOp::World(Op::Despawn(1)),
                EvOp::EmitS(SK::E1, Mode::Broadcast, None),
                EvOp::EmitS(SK::E2, Mode::Broadcast, None),
                EvOp::EmitS(SK::EM, Mode::Broadcast, Some(1)),
                EvOp::EmitS(SK::T1, Mode::Broadcast, Some(1)),
                EvOp::EmitS(SK::EM, Mode::Broadcast, Some(0)),
                EvOp::EmitS(SK::EI, Mode::Broadcast, None),
            ],
            rounds: if q || clients == 2 { 3 } else { 4 },
            tick_choice: true,
            env: EvEnv { hold_updates: 3, hold_events: true, reorder: true, drop_unreliable: false, hold_client_events: false, hold_mutations: false, hold_acks: false, update_latency: 0 },
            oracles: EvOracles { c04: true, ..Default::default() },
            closure_rounds: 4,
        };
        let dev = if clients == 1 { if q { 2 } else { 3 } } else { if q { 1 } else { 2 } };
        v.push(plan(c, dev, 2.0));
    }
    v
}

pub const RULE: &str = "histories of structural operations and emissions of dependent / mapped / independent events and triggers (before or after the spawn they reference, on tick and non-tick frames) x relative delays between the update channel (up to 3 pending messages) and the event channels with <= d deviations; at every delivery the client's update tick is compared with the last update message the server had sent before the event and every reference is resolved through the entity map; non-trivial = an event was emitted and observed";
