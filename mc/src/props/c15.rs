//! C15: the entity wire encoding is lossless and decoding is total.
use std::{
    collections::BTreeSet,
    sync::{
        Mutex,
        atomic::{AtomicU64, Ordering},
    },
};

use bevy::prelude::*;
use bevy_replicon::{bytes::Bytes, shared::entity_serde};
use rayon::prelude::*;
use serde_json::json;

use crate::{
    bytes::{count_short, grammar_inputs, hex, nth_short, unhex},
    check::{self, Outcome, Tier},
    explore::MachineryError,
    sim::guarded,
};

fn index_classes() -> Vec<u32> {
    vec![
        0, 1, 2, 63, 64, 127, 128, 255, 256, (1 << 13) - 1, 1 << 13, (1 << 14) - 1, 1 << 14,
        (1 << 20) - 1, 1 << 20, (1 << 21) - 1, 1 << 21, (1 << 27) - 1, 1 << 27, (1 << 28) - 1, 1 << 28,
        (1 << 30) - 1, 1 << 30, (1u32 << 31) - 1, 1u32 << 31, u32::MAX - 1, u32::MAX,
    ]
}

fn generation_classes() -> Vec<u32> {
    vec![
        1, 2, 3, 4, 127, 128, 129, 255, 256, (1 << 14) - 1, 1 << 14, (1 << 14) + 1, (1 << 21) - 1,
        1 << 21, (1 << 21) + 1, (1 << 28) - 1, 1 << 28, (1 << 28) + 1, (1 << 30) - 1, 1 << 30,
        (1u32 << 31) - 2, (1u32 << 31) - 1,
    ]
}

#[derive(Debug)]
struct Bad {
    oracle: &'static str,
    input: String,
    detail: String,
}

/// Decodes one byte string; `Err` describes a property violation.
fn decode_total(input: &[u8]) -> Result<(bool, usize), Bad> {
    let mut b = Bytes::copy_from_slice(input);
    let before = b.len();
    match guarded(|| entity_serde::deserialize_entity(&mut b)) {
        Err((msg, loc)) => Err(Bad {
            oracle: "panic",
            input: hex(input),
            detail: format!("decoding panicked: {msg} ({})", crate::sim::short_loc(&loc)),
        }),
        Ok(Ok(e)) => {
            if Entity::try_from_bits(e.to_bits()).is_err() {
                return Err(Bad { oracle: "invalid-entity", input: hex(input), detail: format!("decoded {e:?} which is not a valid identifier") });
            }
            Ok((true, before - b.len()))
        }
        Ok(Err(_)) => Ok((false, before - b.len())),
    }
}

fn round_trip(index: u32, generation: u32, prefix: &[u8], suffix: &[u8]) -> Result<(), Bad> {
    let e = Entity::from_bits(((generation as u64) << 32) | index as u64);
    let mut buf = prefix.to_vec();
    let r = guarded(|| entity_serde::serialize_entity(&mut buf, e));
    let input = format!("index={index} generation={generation}");
    match r {
        Err((msg, loc)) => return Err(Bad { oracle: "panic", input, detail: format!("encoding panicked: {msg} ({loc})") }),
        Ok(Err(err)) => return Err(Bad { oracle: "encode-error", input, detail: format!("encoding failed: {err}") }),
        Ok(Ok(())) => {}
    }
    let produced = buf.len() - prefix.len();
    buf.extend_from_slice(suffix);
    let mut b = Bytes::from(buf);
    let _ = b.split_to(prefix.len());
    let before = b.len();
    match guarded(|| entity_serde::deserialize_entity(&mut b)) {
        Err((msg, loc)) => Err(Bad { oracle: "panic", input, detail: format!("decoding its own encoding panicked: {msg} ({})", crate::sim::short_loc(&loc)) }),
        Ok(Err(err)) => Err(Bad { oracle: "round-trip", input, detail: format!("decoding its own encoding failed: {err}") }),
        Ok(Ok(d)) => {
            if d != e {
                return Err(Bad { oracle: "round-trip", input, detail: format!("decoded {d:?} instead of {e:?}") });
            }
            let consumed = before - b.len();
            if consumed != produced {
                return Err(Bad { oracle: "round-trip", input, detail: format!("encoder produced {produced} bytes, decoder consumed {consumed}") });
            }
            Ok(())
        }
    }
}

pub fn run(tier: Tier, _budget: f64, out: &mut Outcome) -> Result<(), MachineryError> {
    out.rule = RULE.into();
    let bad: Mutex<Vec<Bad>> = Mutex::new(Vec::new());
    let outcomes: Mutex<BTreeSet<(bool, usize)>> = Mutex::new(BTreeSet::new());

    // (1) round trip over the product of boundary classes, embedded in longer messages
    let mut rt = 0u64;
    for &i in &index_classes() {
        for &g in &generation_classes() {
            for (p, s) in [(&[][..], &[][..]), (&[0xff, 0x80][..], &[0x00][..]), (&[0x01][..], &[0xff, 0xff, 0x01][..])] {
                rt += 1;
                if let Err(b) = round_trip(i, g, p, s) {
                    bad.lock().unwrap().push(b);
                }
            }
        }
    }

    // (2) every byte string up to a small length
    let max_len = if tier.quick() { 2 } else { 3 };
    let n = count_short(max_len);
    let evaluated = AtomicU64::new(0);
    (0..n).into_par_iter().for_each(|k| {
        let input = nth_short(k, max_len);
        evaluated.fetch_add(1, Ordering::Relaxed);
        match decode_total(&input) {
            Ok(o) => {
                let mut s = outcomes.lock().unwrap();
                if !s.contains(&o) {
                    s.insert(o);
                }
            }
            Err(b) => {
                let mut v = bad.lock().unwrap();
                if v.len() < 1000 {
                    v.push(b);
                }
            }
        }
    });

    // (3) the varint-boundary grammar: flagged index, optional generation, trailing bytes
    let grammar = grammar_inputs(if tier.quick() { 2 } else { 3 });
    grammar.par_iter().for_each(|input| {
        evaluated.fetch_add(1, Ordering::Relaxed);
        match decode_total(input) {
            Ok(o) => {
                outcomes.lock().unwrap().insert(o);
            }
            Err(b) => {
                let mut v = bad.lock().unwrap();
                if v.len() < 1000 {
                    v.push(b);
                }
            }
        }
    });

    let evaluated = evaluated.load(Ordering::Relaxed) + rt;
    let outcomes = outcomes.into_inner().unwrap();
    out.evaluations += evaluated;
    out.nontrivial += evaluated;
    out.distinct_nontrivial += outcomes.len() as u64 + rt;
    out.distinct_outcomes += outcomes.len() as u64;
    out.states += outcomes.len() as u64 + rt;
    out.transitions += evaluated;
    out.samples.push(json!({"round_trip": "index=4294967295 generation=2147483647 with prefix ff80 and suffix 00"}));
    out.samples.push(json!({"decode": hex(&grammar[grammar.len() / 2])}));
    out.reports.push(json!({
        "round_trips": rt, "short_strings_up_to": max_len, "short_strings": n, "grammar_inputs": grammar.len(),
        "distinct_decode_outcomes": outcomes.len(), "exhaustive_within_bound": true,
    }));
    eprintln!("  C15: round trips {rt}, byte strings <= {max_len} bytes: {n}, grammar inputs {}, outcomes {}", grammar.len(), outcomes.len());

    // classify
    let findings = check::load_findings();
    let mut bad = bad.into_inner().unwrap();
    bad.sort_by_key(|b| (b.input.len(), b.input.clone()));
    out.violation_total += bad.len() as u64;
    let mut seen = BTreeSet::new();
    for b in &bad {
        // one report per (oracle, panic site / mismatch kind)
        let site = b.detail.split('(').last().unwrap_or("").to_string();
        if !seen.insert((b.oracle, site.clone())) {
            continue;
        }
        let feats: BTreeSet<String> = [format!("site:{site}")].into();
        if let Some(k) = findings.findings.iter().find(|f| check::matches_known(f, "C15", b.oracle, &feats)) {
            out.known_hits.push(format!("KNOWN-FINDING: property=C15 {}", k.what));
            continue;
        }
        let dir = std::path::Path::new(&check::verif_root()).join("replays").join("C15");
        let _ = std::fs::create_dir_all(&dir);
        let path = dir.join(format!("{:016x}.json", crate::explore::hash_of(&(b.oracle, &b.input))));
        let doc = json!({"property": "C15", "kind": "codec", "input": b.input, "violation": {"property": "C15", "oracle": b.oracle, "detail": b.detail}});
        std::fs::write(&path, serde_json::to_string_pretty(&doc).unwrap()).unwrap();
        out.new_violations.push(path);
    }
    Ok(())
}

pub fn replay(doc: &serde_json::Value) -> i32 {
    let input = doc["input"].as_str().unwrap_or("");
    println!("input: {input}");
    let r = if let Some(rest) = input.strip_prefix("index=") {
        let mut it = rest.split(" generation=");
        let i: u32 = it.next().unwrap().parse().unwrap();
        let g: u32 = it.next().unwrap().parse().unwrap();
        [(&[][..], &[][..]), (&[0xff, 0x80][..], &[0x00][..]), (&[0x01][..], &[0xff, 0xff, 0x01][..])]
            .iter()
            .map(|(p, s)| round_trip(i, g, p, s))
            .find(|r| r.is_err())
            .unwrap_or(Ok(()))
    } else {
        decode_total(&unhex(input)).map(|_| ())
    };
    match r {
        Ok(()) => {
            println!("replay passes: no violation");
            0
        }
        Err(b) => {
            println!("VIOLATION property=C15 replay=<file> oracle={} :: {}", b.oracle, b.detail);
            1
        }
    }
}

pub const RULE: &str = "round trip of every (index class x generation class) pair of valid identifiers embedded in longer messages (consumed length = produced length); decoding of every byte string of length <= 2 (quick) / <= 3 (thorough) and of every message of the varint-boundary grammar (<= 2/3 fields + tails + all truncations); result must be Ok(valid identifier) or Err, never a panic; distinct = distinct (ok, consumed bytes) outcomes";
