//! C07: unauthorized clients get no replication and only independent events.
use crate::{
    check::{CellPlan, Tier, plan},
    events::*,
    sim::*,
};

fn cell(name: &str, auth: Auth, mismatch: bool) -> EvCell {
    let mut cfg = Cfg::default();
    cfg.events = true;
    cfg.auth = auth;
    cfg.clients = vec![1200, 1200];
    if mismatch {
        cfg.mismatch = vec![1];
    }
    let mut alphabet = vec![
        EvOp::Nop,
        EvOp::Connect(1),
        EvOp::ConnectSlowly(1),
        EvOp::World(Op::Mut(0, TA)),
        EvOp::World(Op::Spawn(1, 1 << TA)),
        EvOp::World(Op::Rm(0, TB)),
        EvOp::EmitS(SK::E1, Mode::Broadcast, None),
        EvOp::EmitS(SK::E1, Mode::Direct(1), None),
        EvOp::EmitS(SK::EI, Mode::Broadcast, None),
        EvOp::EmitS(SK::TI, Mode::Direct(1), None),
        EvOp::EmitS(SK::E1, Mode::Except(1), None),
        EvOp::EmitS(SK::EI, Mode::Except(0), None),
        EvOp::Burst(2),
        EvOp::Disconnect(1),
    ];
    if auth == Auth::Custom {
        alphabet.push(EvOp::Authorize(1));
        alphabet.push(EvOp::PreMap(1));
    }
    EvCell {
        name: format!("c07-{name}"),
        property: "C07",
        cfg,
        connect_at_start: if auth == Auth::Custom { vec![] } else { vec![0] },
        init: vec![Op::Spawn(0, (1 << TA) | (1 << TB))],
        alphabet,
        rounds: 3,
        tick_choice: true,
        env: EvEnv { hold_updates: 0, hold_events: false, reorder: false, drop_unreliable: false, hold_client_events: true, hold_mutations: false, hold_acks: false, update_latency: 0, update_batch: 0 },
        oracles: EvOracles { c07: true, c05: true, convergence: !mismatch, ..Default::default() },
        closure_rounds: 5,
    }
}

pub fn cells(tier: Tier) -> Vec<CellPlan> {
    let q = tier.quick();
    let mut v = Vec::new();
    for (name, auth, mismatch) in [
        ("protocol", Auth::ProtocolCheck, false),
        ("mismatch", Auth::ProtocolCheck, true),
        ("custom", Auth::Custom, false),
        ("none", Auth::None, false),
    ] {
        let mut c = cell(name, auth, mismatch);
        c.rounds = if q { 3 } else { 4 };
        v.push(plan(c, if q { 2 } else { 3 }, 1.0));
    }
    // Entities without any replicated component that exist before a client is authorized.
    for (name, auth) in [("empty-protocol", Auth::ProtocolCheck), ("empty-none", Auth::None)] {
        let mut c = cell(name, auth, false);
        c.init = vec![Op::Spawn(0, (1 << TA) | (1 << TB)), Op::Spawn(1, 0)];
        c.alphabet = vec![
            EvOp::Nop,
            EvOp::Connect(1),
            EvOp::World(Op::Spawn(2, 0)),
            EvOp::World(Op::Ins(1, TA)),
            EvOp::World(Op::Despawn(1)),
            EvOp::EmitS(SK::E1, Mode::Broadcast, None),
            EvOp::Disconnect(1),
        ];
        c.rounds = if q { 3 } else { 4 };
        v.push(plan(c, if q { 1 } else { 2 }, 1.0));
    }
    // Three clients: two authorized ones and one whose handshake is still in flight.
    {
        let mut c = cell("protocol-3c", Auth::ProtocolCheck, false);
        c.cfg.clients = vec![1200, 1200, 1200];
        c.connect_at_start = vec![0, 2];
        c.alphabet = vec![
            EvOp::Nop,
            EvOp::Connect(1),
            EvOp::EmitS(SK::E1, Mode::Except(0), None),
            EvOp::EmitS(SK::E1, Mode::Broadcast, None),
            EvOp::EmitS(SK::EI, Mode::Except(2), None),
            EvOp::EmitS(SK::E1, Mode::Direct(2), None),
        ];
        c.rounds = if q { 3 } else { 4 };
        v.push(plan(c, if q { 1 } else { 2 }, 1.0));
    }
    // Frames of 20 ms: event buffers rotate every frame, so a `DisconnectRequest` written on a
    // frame without a tick is gone two frames later unless the backend's set ran in between.
    {
        let mut c = cell("mismatch-dt20", Auth::ProtocolCheck, true);
        c.cfg.dt_ms = 20;
        c.alphabet = vec![EvOp::Nop, EvOp::Connect(1), EvOp::World(Op::Mut(0, TA)), EvOp::EmitS(SK::EI, Mode::Broadcast, None)];
        c.rounds = if q { 4 } else { 5 };
        v.push(plan(c, if q { 1 } else { 2 }, 1.0));
    }
    // A synchronized relationship whose graph has been through ticks before a client is
    // authorized: the late client must be served like the others.
    for (name, auth) in [("related-protocol", Auth::ProtocolCheck), ("related-none", Auth::None)] {
        let mut c = cell(name, auth, false);
        c.cfg.with_child = true;
        c.cfg.sync_rel = true;
        c.init = vec![Op::Spawn(0, 1 << TA), Op::Spawn(1, 1 << TA), Op::SetParent(1, 0)];
        c.alphabet = vec![
            EvOp::Nop,
            EvOp::Connect(1),
            EvOp::World(Op::Mut(0, TA)),
            EvOp::World(Op::Mut(1, TA)),
            EvOp::World(Op::ClearParent(1)),
            EvOp::EmitS(SK::E1, Mode::Broadcast, None),
            EvOp::Disconnect(1),
        ];
        c.rounds = if q { 3 } else { 4 };
        v.push(plan(c, if q { 1 } else { 2 }, 1.0));
    }
    // Entities holding periodically replicated and send-once components: a client that
    // authorizes late must still receive them in full.
    for (name, auth) in [("rates-protocol", Auth::ProtocolCheck), ("rates-custom", Auth::Custom)] {
        let mut c = cell(name, auth, false);
        c.cfg.with_p = true;
        c.cfg.with_o = true;
        c.init = vec![Op::Spawn(0, (1 << TA) | (1 << TP) | (1 << TO))];
        c.alphabet = vec![
            EvOp::Nop,
            EvOp::Connect(1),
            EvOp::World(Op::Mut(0, TP)),
            EvOp::World(Op::Mut(0, TO)),
            EvOp::World(Op::Spawn(1, (1 << TP) | (1 << TO))),
            EvOp::EmitS(SK::E1, Mode::Broadcast, None),
            EvOp::Disconnect(1),
        ];
        if auth == Auth::Custom {
            c.alphabet.push(EvOp::Authorize(1));
        }
        c.rounds = if q { 3 } else { 4 };
        c.closure_rounds = 8;
        v.push(plan(c, if q { 1 } else { 2 }, 1.0));
    }
    v
}

pub const RULE: &str = "histories of world operations and emissions (dependent / independent, all send modes) with a second client that connects at an arbitrary point and authorizes late (its handshake message held for up to d steps), never (custom) or with a different protocol; after every server frame every message to a connected-but-unauthorized client must be on an independent channel; after closure an authorized client must hold the complete visible state; non-trivial = at least one event emitted";
