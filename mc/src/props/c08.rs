//! C08: hidden entities' data never reaches a client.
use crate::{
    cells,
    check::{CellPlan, Tier, plan},
    repl::{Env, MutMenu, Oracles},
    sim::*,
};

pub fn cells(tier: Tier) -> Vec<CellPlan> {
    let q = tier.quick();
    let mut v = Vec::new();
    for vis in [Vis::Blacklist, Vis::Whitelist] {
        // one client: the full visibility alphabet, per-frame wire scan, query oracle, closure
        let mut c = cells::visibility("C08", vis, 1);
        // (acknowledgements may arrive late: after the entity was hidden again)
        c.env.hold_acks = true;
        c.oracles = Oracles { c08: true, c01: true, c03: true, ..Default::default() };
        c.rounds = if q { 3 } else { 4 };
        v.push(plan(c, if q { 1 } else { 2 }, 2.0));
        // two clients: c0's visibility changes, c1 is compared with its twin execution
        let mut c = cells::visibility("C08", vis, 2);
        c.alphabet = vec![
            Op::Nop,
            Op::Vis(0, 0, false),
            Op::Vis(0, 0, true),
            Op::Vis(1, 0, false),
            Op::Vis(1, 0, true),
            Op::Mut(0, TA),
            Op::Rm(0, TB),
            Op::Despawn(0),
            Op::Unmark(0),
            Op::Mark(0),
        ];
        c.env = Env { hold_acks: false, hold_updates: 1, mutations: MutMenu::Hold, leftover_choice: false, lossy: false };
        c.oracles = Oracles { c08: true, c01: true, c08_twin: true, ..Default::default() };
        c.rounds = 3;
        v.push(plan(c, if q { 0 } else { 1 }, 2.0));
    }
    for vis in [Vis::Blacklist, Vis::Whitelist] {
        let mut c = cells::vis_despawns("C08", vis);
        c.oracles = Oracles { c08: true, c01: true, c03: true, ..Default::default() };
        v.push(plan(c, if q { 0 } else { 1 }, 1.0));
    }
    for vis in [Vis::Blacklist, Vis::Whitelist] {
        let mut c = cells::vis_neighbour("C08", vis);
        c.oracles = Oracles { c08: true, c01: true, c03: true, ..Default::default() };
        v.push(plan(c, 1, 1.0));
    }
    for vis in [Vis::Blacklist, Vis::Whitelist] {
        let mut c = cells::vis_empty("C08", vis);
        c.oracles = Oracles { c08: true, c01: true, c03: true, ..Default::default() };
        c.rounds = if q { 3 } else { 4 };
        v.push(plan(c, 1, 1.0));
    }
    v
}

pub const RULE: &str = "every sequence of set-visibility calls (repeated and mutually cancelling ones inside a tick window included), lifecycle operations and ticks under both list policies x reliable-channel delays; after every server frame every message is scanned for the payload of entities hidden from its recipient and is_visible is compared with the last call; the structural and closure oracles check gain/loss; with two clients the second client's views are compared frame by frame with a twin execution without the first client's calls; non-trivial = at least one operation applied";
