//! C06: no client input can crash or exhaust the server.
//!
//! Byte strings are injected under the connection entity of an attacking client into a real
//! server App that also serves a well-behaved client. Sweeps run in worker subprocesses with an
//! address-space limit, so that an abort or an allocation failure is observed as the worker's
//! exit status; the journal names the input it died on.

use std::{collections::BTreeSet, process::Command};

use bevy_replicon::prelude::*;
use serde::{Deserialize, Serialize};
use serde_json::json;

use crate::{
    bytes::*,
    check::{self, Outcome, Tier},
    explore::MachineryError,
    sim::*,
};

#[derive(Clone, Copy, Debug, PartialEq, Eq, Serialize, Deserialize)]
pub enum Config {
    /// Default plugins (ProtocolCheck): acknowledgement channel and protocol-hash trigger.
    Default,
    /// Plus one of each registered kind (plain / mapped client event, client trigger).
    Full,
}

#[derive(Clone, Copy, Debug, PartialEq, Eq, Serialize, Deserialize)]
pub enum Sender {
    Unauthorized,
    Authorized,
    /// The sender disconnects in the same step, after the bytes were handed to the server.
    Disconnecting,
}

#[derive(Clone, Debug, Serialize, Deserialize)]
pub struct Job {
    pub config: Config,
    pub sender: Sender,
    pub channel: usize,
    /// `short:<max_len>` or `grammar:<fields>` or `one:<hex>`
    pub inputs: String,
    pub part: u64,
    pub parts: u64,
    pub journal: String,
}

#[derive(Clone, Debug, Serialize, Deserialize, Default)]
pub struct JobResult {
    pub inputs: u64,
    pub frames: u64,
    pub health_checks: u64,
    pub max_alloc: usize,
    pub outcomes: BTreeSet<String>,
    pub bad: Vec<BadInput>,
}

#[derive(Clone, Debug, Serialize, Deserialize)]
pub struct BadInput {
    pub oracle: String,
    pub input: String,
    pub detail: String,
    pub site: String,
}

struct Rig {
    sim: Sim,
    sender: Sender,
}

fn channels_of(config: Config) -> usize {
    match config {
        Config::Default => 2,
        Config::Full => 8,
    }
}

impl Rig {
    fn new(config: Config, sender: Sender) -> Rig {
        let mut cfg = Cfg::default();
        cfg.auth = Auth::ProtocolCheck;
        cfg.events = config == Config::Full;
        cfg.clients = vec![1200, 1200];
        let mut sim = Sim::new(&cfg);
        sim.connect(0);
        sim.connect(1);
        let mut rig = Rig { sim, sender };
        // handshake of the good client (and of the attacker when it is to be authorized)
        for _ in 0..3 {
            rig.round(true);
        }
        rig.sim.apply_op(Op::Spawn(0, (1 << TA) | (1 << TB)));
        for _ in 0..3 {
            rig.round(true);
        }
        assert!(rig.sim.is_authorized(1), "good client must be authorized");
        assert_eq!(rig.sim.is_authorized(0), sender != Sender::Unauthorized, "attacker authorization state");
        rig
    }

    /// One lock-step round; the attacker's own client app only runs when it has to authorize.
    fn round(&mut self, tick: bool) {
        let honest: Vec<usize> = if self.sender == Sender::Unauthorized { vec![1] } else { vec![0, 1] };
        for &c in &honest {
            for ch in 0..self.sim.client_channels.len() {
                self.sim.deliver_to_server(c, ch, &Sel::All);
            }
        }
        self.sim.server_frame(tick).expect("server frame in set-up / health check");
        for &c in &honest {
            for ch in 0..self.sim.server_channels.len() {
                self.sim.deliver_to_client(c, ch, &Sel::All);
            }
            self.sim.client_frame(c).expect("client frame");
        }
        for q in self.sim.clients[0].s2c.iter_mut() {
            if self.sender == Sender::Unauthorized {
                q.clear();
            }
        }
        self.sim.wire.clear();
    }

    /// The well-behaved client must still converge on a fresh mutation.
    fn healthy(&mut self) -> Result<(), String> {
        if !self.sim.enabled(Op::Mut(0, TA)) {
            return Err("server entity vanished".into());
        }
        self.sim.apply_op(Op::Mut(0, TA));
        for _ in 0..3 {
            self.round(true);
        }
        let server = self.sim.server_snap();
        let view = self.sim.client_view(1);
        self.sim.converged(1, &server, &view, true).map_err(|v| format!("{}: {}", v.oracle, v.detail))?;
        let _ = crate::events::drain_observed_opt(&mut self.sim.server);
        self.sim.actions.clear();
        self.sim.steps.clear();
        Ok(())
    }
}

/// Genuine client-to-server messages per channel, produced by the library's own client in a
/// twin set-up (identical Apps, so entity ids in mapped events and trigger targets are valid).
pub fn genuine_messages(config: Config) -> std::collections::BTreeMap<usize, Vec<Vec<u8>>> {
    use crate::events::*;
    let mut cfg = Cfg::default();
    cfg.auth = Auth::ProtocolCheck;
    cfg.events = config == Config::Full;
    cfg.clients = vec![1200, 1200];
    let mut sim = Sim::new(&cfg);
    let mut out: std::collections::BTreeMap<usize, Vec<Vec<u8>>> = Default::default();
    let mut grab = |sim: &mut Sim, out: &mut std::collections::BTreeMap<usize, Vec<Vec<u8>>>| {
        for (ch, q) in sim.clients[1].c2s.iter().enumerate() {
            for m in q {
                out.entry(ch).or_default().push(m.bytes.to_vec());
            }
        }
    };
    sim.connect(1);
    sim.client_frame(1).expect("client frame");
    grab(&mut sim, &mut out); // the protocol hash
    let lock = |sim: &mut Sim| {
        for ch in 0..sim.client_channels.len() {
            sim.deliver_to_server(1, ch, &Sel::All);
        }
        sim.server_frame(true).expect("server frame");
        for ch in 0..sim.server_channels.len() {
            sim.deliver_to_client(1, ch, &Sel::All);
        }
        sim.client_frame(1).expect("client frame");
    };
    for _ in 0..2 {
        lock(&mut sim);
    }
    sim.apply_op(Op::Spawn(0, (1 << TA) | (1 << TB)));
    for _ in 0..3 {
        lock(&mut sim);
    }
    // an acknowledgement
    sim.apply_op(Op::Mut(0, TA));
    for ch in 0..sim.client_channels.len() {
        sim.deliver_to_server(1, ch, &Sel::All);
    }
    sim.server_frame(true).expect("server frame");
    for ch in 0..sim.server_channels.len() {
        sim.deliver_to_client(1, ch, &Sel::All);
    }
    sim.client_frame(1).expect("client frame");
    grab(&mut sim, &mut out);
    for q in sim.clients[1].c2s.iter_mut() {
        q.clear();
    }
    if config == Config::Full {
        let e = sim.alive(0).unwrap();
        let ce = *sim.clients[1]
            .app
            .world()
            .resource::<bevy_replicon::shared::server_entity_map::ServerEntityMap>()
            .to_client()
            .get(&e)
            .expect("entity replicated to the genuine client");
        let w = sim.clients[1].app.world_mut();
        w.send_event(C1(seq(CK::C1.tag(), 201)));
        w.send_event(C2(seq(CK::C2.tag(), 202)));
        w.send_event(C3(seq(CK::C3.tag(), 203)));
        w.send_event(CM { seq: seq(CK::CM.tag(), 204), e: ce });
        w.client_trigger_targets(CT(seq(CK::CT.tag(), 205)), ce);
        w.send_event(CS { seq: seq(CK::CS.tag(), 206), text: "hello".into(), nums: vec![7, 9] });
        sim.client_frame(1).expect("client frame");
        grab(&mut sim, &mut out);
    }
    out
}

/// Reference decoding of a client trigger message: a target count, that many entities, and at
/// least the four bytes of the event behind them.
fn well_formed_trigger(input: &[u8]) -> bool {
    let mut pos = 0;
    let Some(count) = read_varint(input, &mut pos) else { return false };
    if count > input.len() as u64 {
        return false;
    }
    let mut b = bevy_replicon::bytes::Bytes::copy_from_slice(&input[pos..]);
    for _ in 0..count {
        match guarded(|| bevy_replicon::shared::entity_serde::deserialize_entity(&mut b)) {
            Ok(Ok(_)) => {}
            _ => return false,
        }
    }
    b.len() >= 4
}

/// Truncations, byte substitutions, insertions and a doubling of a genuine message.
fn mutations_of(g: &[u8]) -> Vec<Vec<u8>> {
    let mut out: std::collections::BTreeSet<Vec<u8>> = Default::default();
    out.insert(g.to_vec());
    for cut in 0..g.len() {
        out.insert(g[..cut].to_vec());
    }
    for i in 0..g.len() {
        for b in [0x00u8, 0x01, 0x7f, 0x80, 0xff] {
            let mut m = g.to_vec();
            m[i] = b;
            out.insert(m);
        }
        let mut m = g.to_vec();
        m.insert(i, 0xff);
        out.insert(m);
    }
    // structure-aware: splice one or two boundary varints in place of each byte
    let b = varint_boundaries();
    for i in 0..g.len() {
        for b1 in &b {
            let mut m = g[..i].to_vec();
            m.extend_from_slice(b1);
            m.extend_from_slice(&g[i + 1..]);
            out.insert(m);
            if b1.len() <= 2 {
                for b2 in &b {
                    let mut m = g[..i].to_vec();
                    m.extend_from_slice(b1);
                    m.extend_from_slice(b2);
                    m.extend_from_slice(&g[i + 1..]);
                    out.insert(m);
                }
            }
        }
    }
    let mut d = g.to_vec();
    d.extend_from_slice(g);
    out.insert(d);
    out.into_iter().collect()
}

fn inputs_of(config: Config, channel: usize, spec: &str, part: u64, parts: u64) -> Box<dyn Iterator<Item = Vec<u8>>> {
    if spec == "legit" {
        let corpus = genuine_messages(config);
        let mut all: Vec<Vec<u8>> = Vec::new();
        for g in corpus.get(&channel).cloned().unwrap_or_default() {
            all.extend(mutations_of(&g));
        }
        return Box::new(all.into_iter().enumerate().filter(move |(i, _)| *i as u64 % parts == part).map(|(_, m)| m));
    }
    if let Some(l) = spec.strip_prefix("short:") {
        let max_len: usize = l.parse().unwrap();
        let n = count_short(max_len);
        Box::new((0..n).filter(move |k| k % parts == part).map(move |k| nth_short(k, max_len)))
    } else if let Some(f) = spec.strip_prefix("grammar:") {
        let all = grammar_inputs(f.parse().unwrap());
        Box::new(all.into_iter().enumerate().filter(move |(i, _)| *i as u64 % parts == part).map(|(_, m)| m))
    } else if let Some(h) = spec.strip_prefix("one:") {
        let _ = (config, channel);
        Box::new(std::iter::once(unhex(h)))
    } else {
        panic!("bad input spec {spec}")
    }
}

/// Worker entry point: `rmc c06-worker '<job json>'`.
pub fn worker(job_json: &str) -> i32 {
    let job: Job = serde_json::from_str(job_json).expect("job");
    set_address_space_limit(24 << 30);
    let mut journal = Journal::create(&job.journal);
    let mut res = JobResult::default();
    let mut rig = Rig::new(job.config, job.sender);
    let mut since_health = 0u64;
    // For event channels, a genuine message of the well-behaved client is queued behind every
    // attacker message in the same frame: it must still be handled.
    let companion: Option<Vec<u8>> = if job.config == Config::Full && job.channel >= 2 && job.sender != Sender::Disconnecting {
        genuine_messages(job.config).get(&job.channel).and_then(|v| v.first().cloned())
    } else {
        None
    };
    // For the acknowledgement channel, a genuine acknowledgement of the well-behaved client is
    // queued behind the attacker's message in the same frame: it must still take effect (the
    // acknowledged mutation is not sent again).
    let ack_companion = job.channel == 0 && job.sender != Sender::Disconnecting && job.inputs != "short:3";
    for input in inputs_of(job.config, job.channel, &job.inputs, job.part, job.parts) {
        journal.record(&input);
        res.inputs += 1;
        since_health += 1;
        let mut ack_lost = false;
        let mut process = |rig: &mut Rig| {
            let conn = rig.sim.clients[0].conn.expect("attacker connection");
            let mut genuine_acks: Vec<bevy_replicon::bytes::Bytes> = Vec::new();
            if ack_companion {
                rig.sim.apply_op(Op::Mut(0, TA));
                rig.sim.server_frame(true).expect("server frame producing a mutate message");
                for ch in 0..rig.sim.server_channels.len() {
                    rig.sim.deliver_to_client(1, ch, &Sel::All);
                }
                rig.sim.client_frame(1).expect("client frame");
                genuine_acks = rig.sim.clients[1].c2s[0].drain(..).map(|m| m.bytes).collect();
                assert!(!genuine_acks.is_empty(), "the well-behaved client acknowledges the mutate message");
                for q in rig.sim.clients[0].s2c.iter_mut() {
                    q.clear();
                }
                rig.sim.wire.clear();
                rig.sim.actions.clear();
                rig.sim.steps.clear();
            }
            rig.sim
                .server
                .world_mut()
                .resource_mut::<RepliconServer>()
                .insert_received(conn, job.channel, input.clone());
            for a in &genuine_acks {
                let good = rig.sim.clients[1].conn.expect("good client connection");
                rig.sim
                    .server
                    .world_mut()
                    .resource_mut::<RepliconServer>()
                    .insert_received(good, 0usize, a.clone());
            }
            if let Some(g) = &companion {
                let good = rig.sim.clients[1].conn.expect("good client connection");
                rig.sim
                    .server
                    .world_mut()
                    .resource_mut::<RepliconServer>()
                    .insert_received(good, job.channel, g.clone());
            }
            if job.sender == Sender::Disconnecting {
                rig.sim.disconnect(0);
            }
            // every frame is a tick, as under the default tick policies
            rig.sim
                .server
                .world_mut()
                .resource_mut::<bevy_replicon::server::server_tick::ServerTick>()
                .increment();
            let out = record_max_alloc(|| guarded(|| rig.sim.server.update()));
            if out.0.is_ok() {
                let good = rig.sim.clients[1].conn;
                let resent = rig
                    .sim
                    .server
                    .world_mut()
                    .resource_mut::<RepliconServer>()
                    .drain_sent()
                    .filter(|(to, ch, _)| Some(*to) == good && *ch == 1)
                    .count();
                if ack_companion && resent > 0 {
                    ack_lost = true;
                }
                if job.sender == Sender::Disconnecting {
                    rig.sim.connect(0);
                }
            }
            out
        };
        let (r, mut max_alloc) = process(&mut rig);
        res.frames += 1;
        let mut rebuilt = false;
        match r {
            Err((msg, loc)) => {
                let site = short_loc(&loc);
                res.outcomes.insert(format!("panic@{site}"));
                if res.bad.len() < 50 {
                    res.bad.push(BadInput { oracle: "panic".into(), input: hex(&input), detail: format!("server panicked: {msg} ({site})"), site });
                }
                rig = Rig::new(job.config, job.sender);
                rebuilt = true;
            }
            Ok(()) => {
                // Amortized growth of long-lived buffers (event queues, entity tables) is not
                // caused by this message: an allocation that is out of proportion to the
                // message recurs when the same message is processed again.
                if max_alloc > alloc_bound(input.len()) {
                    let (r2, again) = process(&mut rig);
                    res.frames += 1;
                    if r2.is_ok() {
                        max_alloc = max_alloc.min(again);
                    } else {
                        rig = Rig::new(job.config, job.sender);
                        rebuilt = true;
                    }
                }
                res.max_alloc = res.max_alloc.max(max_alloc);
                if companion.is_some() && !rebuilt {
                    // run one more frame so that readers / observers in Update and PreUpdate see it
                    let _ = guarded(|| rig.sim.server.update());
                    res.frames += 1;
                    let good = rig.sim.clients[1].conn.map(|e| e.to_bits());
                    let attacker = rig.sim.clients[0].conn.map(|e| e.to_bits());
                    let observed = crate::events::drain_observed_opt(&mut rig.sim.server);
                    let seen = observed.iter().filter(|o| o.from == good && o.n >= 200).count();
                    // A trigger message is `count, count x entity, event`: if it does not decode
                    // under that layout, the server must discard it, not fire something else.
                    let from_attacker = observed.iter().filter(|o| o.from == attacker && attacker.is_some()).count();
                    if job.channel == 6 && from_attacker > 0 && !well_formed_trigger(&input) && res.bad.len() < 50 {
                        res.outcomes.insert("malformed-accepted".into());
                        res.bad.push(BadInput {
                            oracle: "malformed-accepted".into(),
                            input: hex(&input),
                            detail: format!("this trigger message does not decode as `count, count x entity, event`, yet the server fired {from_attacker} trigger(s) for its sender"),
                            site: "trigger-layout".into(),
                        });
                    }
                    if seen == 0 && res.bad.len() < 50 {
                        res.outcomes.insert("companion-lost".into());
                        res.bad.push(BadInput {
                            oracle: "legit-event-lost".into(),
                            input: hex(&input),
                            detail: "a genuine event of the well-behaved client, queued behind this message in the same frame on the same channel, was not handled".into(),
                            site: "companion".into(),
                        });
                    }
                }
                if ack_lost && res.bad.len() < 50 {
                    res.outcomes.insert("ack-lost".into());
                    res.bad.push(BadInput {
                        oracle: "legit-ack-lost".into(),
                        input: hex(&input),
                        detail: "a genuine acknowledgement of the well-behaved client, queued behind this message in the same frame, had no effect: the acknowledged mutation was sent again".into(),
                        site: "ack-companion".into(),
                    });
                }
                if max_alloc > alloc_bound(input.len()) {
                    res.outcomes.insert("oversized".into());
                    if res.bad.len() < 50 {
                        res.bad.push(BadInput {
                            oracle: "oversized-allocation".into(),
                            input: hex(&input),
                            detail: format!("a {}-byte message made the server request a single allocation of {max_alloc} bytes", input.len()),
                            site: "alloc".into(),
                        });
                    }
                } else {
                    res.outcomes.insert("ok".into());
                }
            }
        }
        if since_health >= 2048 && !rebuilt {
            since_health = 0;
            res.health_checks += 1;
            if let Err(e) = rig.healthy() {
                res.bad.push(BadInput { oracle: "unhealthy".into(), input: hex(&input), detail: format!("after this input (or one of the 2048 before it) the well-behaved client no longer converges: {e}"), site: "health".into() });
                rig = Rig::new(job.config, job.sender);
            }
        }
        if res.bad.len() >= 50 {
            break;
        }
    }
    res.health_checks += 1;
    if let Err(e) = rig.healthy() {
        res.bad.push(BadInput { oracle: "unhealthy".into(), input: String::new(), detail: format!("at the end of the sweep the well-behaved client no longer converges: {e}"), site: "health".into() });
    }
    println!("RESULT {}", serde_json::to_string(&res).unwrap());
    flush_stdout();
    0
}

fn run_jobs(jobs: Vec<Job>) -> Result<Vec<(Job, Result<JobResult, String>)>, MachineryError> {
    use rayon::prelude::*;
    let exe = std::env::current_exe().map_err(|e| MachineryError(e.to_string()))?;
    let out: Vec<(Job, Result<JobResult, String>)> = jobs
        .into_par_iter()
        .map(|job| {
            // A worker that stops making progress (the server hangs on an input) is killed after a
            // generous wall-clock limit; the journal names the input it was processing.
            let limit = std::time::Duration::from_secs(if job.inputs.ends_with(":3") { 2400 } else { 60 });
            let mut hung = false;
            let o = (|| -> std::io::Result<std::process::Output> {
                let mut child = Command::new(&exe)
                    .arg("c06-worker")
                    .arg(serde_json::to_string(&job).unwrap())
                    .stdout(std::process::Stdio::piped())
                    .stderr(std::process::Stdio::null())
                    .spawn()?;
                let t0 = std::time::Instant::now();
                loop {
                    if child.try_wait()?.is_some() {
                        return child.wait_with_output();
                    }
                    if t0.elapsed() > limit {
                        let _ = child.kill();
                        hung = true;
                        return child.wait_with_output();
                    }
                    std::thread::sleep(std::time::Duration::from_millis(20));
                }
            })();
            let r = match o {
                Err(e) => Err(format!("spawn failed: {e}")),
                Ok(o) => {
                    let stdout = String::from_utf8_lossy(&o.stdout).to_string();
                    match stdout.lines().find_map(|l| l.strip_prefix("RESULT ")) {
                        Some(j) if o.status.success() => serde_json::from_str::<JobResult>(j).map_err(|e| e.to_string()),
                        _ => {
                            let input = Journal::read(&job.journal).map(|b| hex(&b)).unwrap_or_default();
                            if hung {
                                Err(format!("ABORT {input} the server did not finish processing this input within {} s (worker killed)", limit.as_secs()))
                            } else {
                                Err(format!("ABORT {input} status {:?}", o.status))
                            }
                        }
                    }
                }
            };
            let _ = std::fs::remove_file(&job.journal);
            (job, r)
        })
        .collect();
    Ok(out)
}

/// Raw bytes written to the example backend's server socket by a peer that is not a replicon
/// client: every frame header over the app's channel ids and boundary announced sizes (with nothing, one
/// byte, or the full body behind it), and every 1- and 2-byte fragment of a header. The server
/// app must not panic and must still accept and serve a well-behaved connection afterwards.
fn backend_headers(out: &mut Outcome) -> Result<Vec<(String, String)>, MachineryError> {
    use std::io::Write;
    use bevy::prelude::*;
    use bevy_replicon_example_backend::{ExampleClient, ExampleServer, RepliconExampleBackendPlugins};
    let mut bad = Vec::new();
    let mut cases: Vec<Vec<u8>> = Vec::new();
    // (only ids of channels this app really has: handing a message on a channel that does not
    // exist to `RepliconServer` is a contract violation of the backend, not client input)
    for ch in [0u8, 1] {
        for size in [0u16, 1, 2, 1199, 1200, 1201, 32767, 32768, 65532, 65533, 65534, 65535] {
            let h = vec![ch, size.to_le_bytes()[0], size.to_le_bytes()[1]];
            cases.push(h.clone());
            let mut one = h.clone();
            one.push(0xAA);
            cases.push(one);
            if size <= 2000 {
                let mut full = h.clone();
                full.extend(std::iter::repeat(0x55).take(size as usize));
                cases.push(full);
            }
            cases.push(h[..1].to_vec());
            cases.push(h[..2].to_vec());
        }
    }
    cases.sort();
    cases.dedup();
    for case in &cases {
        let r = guarded(|| -> Result<(), String> {
            let mut server = App::new();
            server.init_resource::<Time>().add_plugins((
                RepliconPlugins.set(ServerPlugin { tick_policy: TickPolicy::EveryFrame, ..Default::default() }),
                RepliconExampleBackendPlugins,
            ));
            server.finish();
            server.cleanup();
            let socket = ExampleServer::new(0).map_err(|e| format!("socket: {e}"))?;
            let port = socket.local_addr().map_err(|e| format!("socket: {e}"))?.port();
            server.insert_resource(socket);
            let mut raw = std::net::TcpStream::connect((std::net::Ipv4Addr::LOCALHOST, port)).map_err(|e| format!("socket: {e}"))?;
            raw.set_nodelay(true).ok();
            for _ in 0..3 {
                server.update();
            }
            raw.write_all(case).map_err(|e| format!("socket: {e}"))?;
            for _ in 0..4 {
                std::thread::sleep(std::time::Duration::from_micros(200));
                server.update();
            }
            // a well-behaved client is still accepted
            let mut client = App::new();
            client.init_resource::<Time>().add_plugins((RepliconPlugins, RepliconExampleBackendPlugins));
            client.finish();
            client.cleanup();
            client.insert_resource(ExampleClient::new(port).map_err(|e| format!("socket: {e}"))?);
            for _ in 0..200 {
                server.update();
                client.update();
                let n = {
                    let w = server.world_mut();
                    let mut q = w.query_filtered::<(), With<AuthorizedClient>>();
                    q.iter(w).count()
                };
                if n >= 1 {
                    return Ok(());
                }
                std::thread::sleep(std::time::Duration::from_micros(500));
            }
            Err("after these bytes from another peer a well-behaved client was not authorized within 200 frames".into())
        });
        out.evaluations += 1;
        out.nontrivial += 1;
        out.transitions += 8;
        match r {
            Ok(Ok(())) => {}
            Ok(Err(e)) if e.starts_with("socket") => return Err(MachineryError(format!("loopback sockets unavailable: {e}"))),
            Ok(Err(e)) => bad.push((hex(case), e)),
            Err((msg, loc)) => bad.push((hex(case), format!("the server app panicked: {msg} ({})", short_loc(&loc)))),
        }
    }
    // a peer that keeps the server's socket full: `per_frame` well-formed frames on the
    // acknowledgement channel before every server frame, while a well-behaved client connects
    for per_frame in [64usize, 400] {
        let r = guarded(|| -> Result<(), String> {
            let mut server = App::new();
            server.init_resource::<Time>().add_plugins((
                RepliconPlugins.set(ServerPlugin { tick_policy: TickPolicy::EveryFrame, ..Default::default() }),
                RepliconExampleBackendPlugins,
            ));
            server.finish();
            server.cleanup();
            let socket = ExampleServer::new(0).map_err(|e| format!("socket: {e}"))?;
            let port = socket.local_addr().map_err(|e| format!("socket: {e}"))?.port();
            server.insert_resource(socket);
            let mut raw = std::net::TcpStream::connect((std::net::Ipv4Addr::LOCALHOST, port)).map_err(|e| format!("socket: {e}"))?;
            raw.set_nodelay(true).ok();
            let frame: Vec<u8> = [0u8, 2, 0, 0x10, 0x00].repeat(per_frame);
            for _ in 0..3 {
                let _ = raw.write_all(&frame);
                server.update();
            }
            let mut client = App::new();
            client.init_resource::<Time>().add_plugins((RepliconPlugins, RepliconExampleBackendPlugins));
            client.finish();
            client.cleanup();
            client.insert_resource(ExampleClient::new(port).map_err(|e| format!("socket: {e}"))?);
            for _ in 0..200 {
                let _ = raw.write_all(&frame);
                server.update();
                client.update();
                let n = {
                    let w = server.world_mut();
                    let mut q = w.query_filtered::<(), With<AuthorizedClient>>();
                    q.iter(w).count()
                };
                if n >= 1 {
                    return Ok(());
                }
                std::thread::sleep(std::time::Duration::from_micros(500));
            }
            Err(format!("while another peer wrote {per_frame} well-formed acknowledgement frames before every server frame, a well-behaved client was not authorized within 200 frames"))
        });
        out.evaluations += 1;
        out.nontrivial += 1;
        out.transitions += 200;
        match r {
            Ok(Ok(())) => {}
            Ok(Err(e)) if e.starts_with("socket") => return Err(MachineryError(format!("loopback sockets unavailable: {e}"))),
            Ok(Err(e)) => bad.push((format!("flood:{per_frame}"), e)),
            Err((msg, loc)) => bad.push((format!("flood:{per_frame}"), format!("the server app panicked: {msg} ({})", short_loc(&loc)))),
        }
    }
    out.reports.push(json!({"cell": "c06-backend-headers", "cases": cases.len(), "flooding_peers": 2, "exhaustive_within_bound": true}));
    eprintln!("  C06: {} raw header cases against the example backend's server socket", cases.len());
    Ok(bad)
}

/// The degenerate input "nothing at all": both clients stay silent (no acknowledgements, their
/// inbound traffic lost) while the server produces more mutate messages than the 16-bit message
/// index can name within the acknowledgement timeout; then the links recover.
fn silent_clients(out: &mut Outcome) -> Vec<(String, String)> {
    let ticks: u32 = (1 << 16) + 8;
    let r = guarded(|| -> Result<(), String> {
        let mut cfg = Cfg::default();
        cfg.auth = Auth::ProtocolCheck;
        cfg.clients = vec![1200, 1200];
        cfg.timeout_ms = 24 * 3_600_000;
        let mut sim = Sim::new(&cfg);
        sim.connect(0);
        sim.connect(1);
        let mut rig = Rig { sim, sender: Sender::Authorized };
        for _ in 0..3 {
            rig.round(true);
        }
        rig.sim.apply_op(Op::Spawn(0, (1 << TA) | (1 << TB)));
        for _ in 0..3 {
            rig.round(true);
        }
        for _ in 0..ticks {
            rig.sim.apply_op(Op::Mut(0, TA));
            rig.sim.server_frame(true).map_err(|v| format!("{}: {}", v.oracle, v.detail))?;
            for c in 0..2 {
                for q in rig.sim.clients[c].s2c.iter_mut() {
                    q.clear();
                }
            }
            rig.sim.wire.clear();
            rig.sim.snaps.clear();
            rig.sim.vis_snaps.clear();
            rig.sim.auth_snaps.clear();
            rig.sim.actions.clear();
            rig.sim.steps.clear();
        }
        rig.healthy()?;
        let server = rig.sim.server_snap();
        let view = rig.sim.client_view(0);
        rig.sim.converged(0, &server, &view, true).map_err(|v| format!("{}: {}", v.oracle, v.detail))?;
        Ok(())
    });
    out.evaluations += 1;
    out.nontrivial += 1;
    out.transitions += ticks as u64;
    out.reports.push(json!({"cell": "c06-silent-clients", "ticks_without_any_client_message": ticks, "exhaustive_within_bound": true}));
    match r {
        Ok(Ok(())) => Vec::new(),
        Ok(Err(e)) => vec![(format!("silence:{ticks}"), format!("after {ticks} ticks without any message from its clients: {e}"))],
        Err((msg, loc)) => vec![(format!("silence:{ticks}"), format!("the server panicked while its clients sent nothing for {ticks} ticks: {msg} ({})", short_loc(&loc)))],
    }
}

pub fn run(tier: Tier, _budget: f64, out: &mut Outcome) -> Result<(), MachineryError> {
    out.rule = RULE.into();
    let q = tier.quick();
    let header_bad = backend_headers(out)?;
    let t0 = std::time::Instant::now();
    let silent_bad = silent_clients(out);
    eprintln!("  C06: silent clients for 65544 ticks ({:.1}s)", t0.elapsed().as_secs_f64());
    let scratch = format!("{}/.target/c06", &check::verif_root());
    let _ = std::fs::create_dir_all(&scratch);
    let mut jobs = Vec::new();
    let mut id = 0;
    for config in [Config::Default, Config::Full] {
        for sender in [Sender::Unauthorized, Sender::Authorized, Sender::Disconnecting] {
            for channel in 0..channels_of(config) {
                // the default configuration's channels are also in the full one; sweep them once
                if config == Config::Full && channel < 2 && !q {
                    continue;
                }
                let mut specs: Vec<(String, u64)> = vec![
                    (format!("grammar:{}", if q { 2 } else { 3 }), if q { 1 } else { 4 }),
                    ("legit".to_string(), if q { 2 } else { 4 }),
                ];
                if sender != Sender::Disconnecting {
                    let (len, parts) = if q { (2, 2) } else { (3, 32) };
                    specs.push((format!("short:{len}"), parts));
                }
                for (spec, parts) in specs {
                    for part in 0..parts {
                        id += 1;
                        jobs.push(Job { config, sender, channel, inputs: spec.clone(), part, parts, journal: format!("{scratch}/journal-{}-{id}", std::process::id()) });
                    }
                }
            }
        }
    }
    let n_jobs = jobs.len();
    let results = run_jobs(jobs)?;
    let findings = check::load_findings();
    let mut seen = BTreeSet::new();
    out.violation_total += header_bad.len() as u64;
    if let Some((input, detail)) = header_bad.first() {
        let feats: BTreeSet<String> = ["site:backend-header".to_string()].into();
        if let Some(k) = findings.findings.iter().find(|f| check::matches_known(f, "C06", "backend-header", &feats)) {
            out.known_hits.push(format!("KNOWN-FINDING: property=C06 {}", k.what));
        } else {
            let dir = std::path::Path::new(&check::verif_root()).join("replays").join("C06");
            let _ = std::fs::create_dir_all(&dir);
            let path = dir.join(format!("{:016x}.json", crate::explore::hash_of(&("backend-header", input))));
            let doc = json!({"property": "C06", "kind": "bytes", "backend_header": true, "input": input,
                "violation": {"property": "C06", "oracle": "backend-header", "detail": detail, "features": feats}});
            std::fs::write(&path, serde_json::to_string_pretty(&doc).unwrap()).unwrap();
            out.new_violations.push(path);
        }
    }
    out.violation_total += silent_bad.len() as u64;
    if let Some((input, detail)) = silent_bad.first() {
        let feats: BTreeSet<String> = ["site:silent-clients".to_string()].into();
        if let Some(k) = findings.findings.iter().find(|f| check::matches_known(f, "C06", "silence", &feats)) {
            out.known_hits.push(format!("KNOWN-FINDING: property=C06 {}", k.what));
        } else {
            let dir = std::path::Path::new(&check::verif_root()).join("replays").join("C06");
            let _ = std::fs::create_dir_all(&dir);
            let path = dir.join(format!("{:016x}.json", crate::explore::hash_of(&("silence", input))));
            let doc = json!({"property": "C06", "kind": "bytes", "silent_clients": true, "input": input,
                "violation": {"property": "C06", "oracle": "silence", "detail": detail, "features": feats}});
            std::fs::write(&path, serde_json::to_string_pretty(&doc).unwrap()).unwrap();
            out.new_violations.push(path);
        }
    }
    let mut outcomes: BTreeSet<String> = BTreeSet::new();
    let mut per_channel: Vec<serde_json::Value> = Vec::new();
    for (job, r) in results {
        let bads: Vec<BadInput> = match r {
            Ok(res) => {
                out.evaluations += res.inputs;
                out.nontrivial += res.inputs;
                out.transitions += res.frames + res.health_checks * 6;
                outcomes.extend(res.outcomes.iter().map(|o| format!("{:?}/{:?}/ch{}/{o}", job.config, job.sender, job.channel)));
                per_channel.push(json!({"config": job.config, "sender": job.sender, "channel": job.channel, "inputs": job.inputs, "part": format!("{}/{}", job.part + 1, job.parts), "evaluated": res.inputs, "health_checks": res.health_checks, "max_single_allocation": res.max_alloc}));
                res.bad
            }
            Err(e) => {
                if let Some(rest) = e.strip_prefix("ABORT ") {
                    let input = rest.split(' ').next().unwrap_or("").to_string();
                    vec![BadInput { oracle: "abort".into(), input, detail: format!("the worker process died while the server processed this input: {rest}"), site: "abort".into() }]
                } else {
                    return Err(MachineryError(format!("worker failed: {e}")));
                }
            }
        };
        out.violation_total += bads.len() as u64;
        for b in bads {
            let kind = if job.channel == 0 { "acks" } else if job.channel == 1 { "protocol-hash-trigger" } else { "client-event" };
            let key = (b.oracle.clone(), b.site.clone(), kind, job.sender == Sender::Unauthorized);
            if !seen.insert(key) {
                continue;
            }
            let feats: BTreeSet<String> = [format!("site:{}", b.site), format!("channel:{kind}"), format!("sender:{:?}", job.sender)].into();
            if let Some(k) = findings.findings.iter().find(|f| check::matches_known(f, "C06", &b.oracle, &feats)) {
                out.known_hits.push(format!("KNOWN-FINDING: property=C06 {}", k.what));
                continue;
            }
            let dir = std::path::Path::new(&check::verif_root()).join("replays").join("C06");
            let _ = std::fs::create_dir_all(&dir);
            let path = dir.join(format!("{:016x}.json", crate::explore::hash_of(&(&b.oracle, &b.input, job.channel, format!("{:?}", job.sender)))));
            let doc = json!({"property": "C06", "kind": "bytes", "config": job.config, "sender": job.sender, "channel": job.channel, "input": b.input,
                "violation": {"property": "C06", "oracle": b.oracle, "detail": b.detail, "features": feats}});
            std::fs::write(&path, serde_json::to_string_pretty(&doc).unwrap()).unwrap();
            out.new_violations.push(path);
        }
    }
    out.distinct_outcomes += outcomes.len() as u64;
    out.distinct_nontrivial += outcomes.len() as u64;
    out.states += outcomes.len() as u64;
    out.samples.push(json!({"config": "Default", "sender": "Unauthorized", "channel": 0, "input": "0000"}));
    out.samples.push(json!({"config": "Full", "sender": "Authorized", "channel": 6, "input": "ffffffffffffffffff01e70b017e"}));
    out.reports.push(json!({"jobs": n_jobs, "sweeps": per_channel, "exhaustive_within_bound": true}));
    eprintln!("  C06: {n_jobs} worker jobs, {} inputs, outcome classes {}", out.evaluations, outcomes.len());
    Ok(())
}

pub fn replay(doc: &serde_json::Value) -> i32 {
    if doc["silent_clients"].as_bool().unwrap_or(false) {
        let mut out = Outcome::new("C06", Tier::Quick, 1);
        let bad = silent_clients(&mut out);
        return if bad.is_empty() {
            println!("replay passes: no violation");
            0
        } else {
            println!("VIOLATION property=C06 replay=<file> oracle=silence :: {} :: {}", bad[0].0, bad[0].1);
            1
        };
    }
    if doc["backend_header"].as_bool().unwrap_or(false) {
        let mut out = Outcome::new("C06", Tier::Quick, 1);
        return match backend_headers(&mut out) {
            Ok(bad) if bad.is_empty() => {
                println!("replay passes: no violation");
                0
            }
            Ok(bad) => {
                println!("VIOLATION property=C06 replay=<file> oracle=backend-header :: bytes {} :: {}", bad[0].0, bad[0].1);
                1
            }
            Err(e) => {
                eprintln!("machinery error: {}", e.0);
                2
            }
        };
    }
    let job = Job {
        config: serde_json::from_value(doc["config"].clone()).unwrap(),
        sender: serde_json::from_value(doc["sender"].clone()).unwrap(),
        channel: doc["channel"].as_u64().unwrap() as usize,
        inputs: format!("one:{}", doc["input"].as_str().unwrap()),
        part: 0,
        parts: 1,
        journal: format!("{}/.target/c06-replay-journal", &check::verif_root()),
    };
    println!("config {:?} sender {:?} channel {} input {}", job.config, job.sender, job.channel, doc["input"]);
    match run_jobs(vec![job]) {
        Ok(rs) => match &rs[0].1 {
            Ok(res) if res.bad.is_empty() => {
                println!("replay passes: no violation");
                0
            }
            Ok(res) => {
                println!("VIOLATION property=C06 replay=<file> oracle={} :: {}", res.bad[0].oracle, res.bad[0].detail);
                1
            }
            Err(e) => {
                println!("VIOLATION property=C06 replay=<file> oracle=abort :: {e}");
                1
            }
        },
        Err(e) => {
            eprintln!("machinery error: {}", e.0);
            2
        }
    }
}

pub const RULE: &str = "for every client channel (acknowledgements, protocol-hash trigger, plain / mapped client events, client trigger) x sender (connected but unauthorized, authorized, disconnecting in the same step): every byte string up to 1-3 bytes and every message of the varint-boundary grammar (<= 2/3 fields x tails x all truncations) is injected into a real server App that also serves a well-behaved client; per input: update() returns, largest single allocation <= 64 KiB + 64 x message length, worker does not abort; every 2048 inputs and at the end the well-behaved client converges on a fresh mutation; plus the empty input: no client message at all for 2^16+8 ticks of mutate messages (message index wraps with every entry still registered), then recovery; plus 80 raw header cases against the example backend's socket; distinct = (configuration, sender, channel, outcome class)";
