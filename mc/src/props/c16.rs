//! C16: pre-spawned client entities are adopted, not duplicated.
use bevy::prelude::*;
use bevy_replicon::shared::server_entity_map::ServerEntityMap;

use crate::{
    cells,
    check::{CellPlan, Tier, plan},
    explore::Violation,
    repl::{Env, MutMenu, Oracles, ReplCell, ReplExec},
    sim::*,
};

/// Per-frame oracle for client `c`.
pub fn check_frame(cell: &ReplCell, x: &mut ReplExec, c: usize, view: &ClientView) -> Result<(), Violation> {
    check_sim(cell.property, &mut x.sim, c, view)
}

/// The same oracle on a bare simulation (used by the event scenario as well).
pub fn check_sim(property: &str, sim: &mut Sim, c: usize, view: &ClientView) -> Result<(), Violation> {
    let v = |oracle: &str, detail: String| Violation::new(property, oracle, detail);
    // No server entity may be represented twice: count client entities carrying an `A` payload
    // of each slot.
    let world = sim.clients[c].app.world_mut();
    let mut q = world.query::<(Entity, &A)>();
    let mut per_slot: std::collections::BTreeMap<u8, Vec<Entity>> = Default::default();
    for (e, a) in q.iter(world) {
        per_slot.entry(a.0[1]).or_default().push(e);
    }
    for (etag, ents) in &per_slot {
        if ents.len() > 1 {
            return Err(v(
                "duplicated-entity",
                format!("client c{c} holds {} entities with data of e{etag}: {ents:?}", ents.len()),
            ));
        }
    }
    for (&(pc, slot), &pre) in &sim.prespawned {
        if pc != c {
            continue;
        }
        let Some(server_entity) = sim.ent(slot) else { continue };
        let app = &sim.clients[c].app;
        let pre_alive = app.world().get_entity(pre).is_ok();
        let mapped = app
            .world()
            .resource::<ServerEntityMap>()
            .to_client()
            .get(&server_entity)
            .copied();
        match mapped {
            // While the pre-spawned entity exists, it is the one and only client entity for
            // the server entity.
            Some(m) if pre_alive => {
                // A mapping registered for an entity the client already knew through a
                // placeholder binds only once its update message has been applied.
                let pending = sim
                    .late_map_tick
                    .get(&(c, slot))
                    .is_some_and(|t| t.is_none_or(|t| tick_older(view.update_tick, t)));
                if pending {
                    continue;
                }
                if m != pre {
                    return Err(v(
                        "not-adopted",
                        format!(
                            "client c{c}: server entity e{} is mapped to {m} although the client's pre-spawned {pre} is alive",
                            slot + 1
                        ),
                    ));
                }
                if view.ents.get(&server_entity.to_bits()).is_some_and(|ce| !ce.marked) {
                    return Err(v(
                        "not-adopted",
                        format!("client c{c}: adopted entity for e{} has no Replicated marker", slot + 1),
                    ));
                }
            }
            // The pre-spawned entity is gone (despawned by the client before the mapping
            // arrived, or by replication): a fresh live entity is required.
            Some(m) => {
                if m == pre || app.world().get_entity(m).is_err() {
                    return Err(v(
                        "stale-prespawn",
                        format!(
                            "client c{c}: e{} is mapped to {m}, but the pre-spawned entity no longer exists; a fresh live entity is required",
                            slot + 1
                        ),
                    ));
                }
            }
            None => {}
        }
    }
    Ok(())
}

/// After closure: the despawn of a server entity that was mapped to a pre-spawned client entity
/// is replication for that entity too - the client's entity is gone.
pub fn check_closed(property: &str, sim: &mut Sim) -> Result<(), Violation> {
    for &(c, slot) in &sim.despawned_mapped {
        let Some(&pre) = sim.prespawned.get(&(c, slot)) else { continue };
        if sim.pre_despawned.contains(&(c, slot)) || !sim.is_authorized(c) {
            continue;
        }
        if sim.clients[c].app.world().get_entity(pre).is_ok() {
            return Err(Violation::new(
                property,
                "despawn-not-landed",
                format!(
                    "client c{c}: the server despawned e{} (mapped to the client's pre-spawned {pre} when it was spawned), everything was delivered, but {pre} still exists",
                    slot + 1
                ),
            ));
        }
    }
    Ok(())
}

pub fn cells(tier: Tier) -> Vec<CellPlan> {
    let q = tier.quick();
    let mut v = Vec::new();

    // Mapping registered in the same tick window as the spawn; two clients, only c0 pre-spawns.
    let mut c = cells::base("same-window", "C16");
    c.cfg.clients = vec![1200, 1200];
    c.init = vec![Op::Spawn(0, cells::AB)];
    c.alphabet = vec![
        Op::Nop,
        Op::MapPre(0, 1),
        Op::MapPre(1, 2),
        Op::MapPre(0, 3),
        Op::MapPrePredicted(0, 4),
        Op::Rm(4, TB),
        Op::MapPreSameId(0, 2),
        Op::MapPreMarked(0, 5),
        Op::DespawnPre(0, 1),
        Op::Mut(1, TA),
        Op::Ins(1, TB),
        Op::Despawn(1),
        Op::Mut(0, TA),
        Op::Spawn(2, cells::M_A),
        Op::Unmark(1),
        Op::Mark(1),
    ];
    c.env = Env { hold_acks: false, hold_updates: 2, mutations: MutMenu::Hold, leftover_choice: false, lossy: false };
    c.oracles = Oracles { c16: true, c03: true, c01: true, ..Default::default() };
    c.rounds = if q { 3 } else { 4 };
    v.push(plan(c, if q { 1 } else { 2 }, 2.0));

    // Mapping registered ahead of replication: unmarked entity marked later.
    let mut c = cells::base("early-map", "C16");
    c.cfg.clients = vec![1200, 1200];
    c.alphabet = vec![
        Op::Nop,
        Op::MapPreUnmarked(0, 1),
        Op::Mark(1),
        Op::DespawnPre(0, 1),
        Op::Mut(1, TA),
        Op::Ins(1, TB),
        Op::Mut(0, TA),
        Op::Despawn(1),
    ];
    c.env = Env { hold_acks: false, hold_updates: 2, mutations: MutMenu::Hold, leftover_choice: false, lossy: false };
    c.oracles = Oracles { c16: true, c01: true, ..Default::default() };
    c.rounds = if q { 3 } else { 4 };
    v.push(plan(c, if q { 1 } else { 2 }, 2.0));

    // Mapping registered while the entity is still hidden (whitelist), visibility granted later.
    let mut c = cells::base("hidden-map", "C16");
    c.cfg.vis = Vis::Whitelist;
    c.cfg.clients = vec![1200, 1200];
    c.init = vec![Op::Spawn(0, cells::AB), Op::Vis(0, 0, true), Op::Vis(1, 0, true)];
    c.alphabet = vec![
        Op::Nop,
        Op::MapPre(0, 1),
        Op::Vis(0, 1, true),
        Op::Vis(1, 1, true),
        Op::Vis(0, 1, false),
        Op::DespawnPre(0, 1),
        Op::Mut(1, TA),
        Op::Ins(1, TB),
    ];
    c.env = Env { hold_acks: false, hold_updates: 1, mutations: MutMenu::Hold, leftover_choice: false, lossy: false };
    c.oracles = Oracles { c16: true, c01: true, ..Default::default() };
    c.rounds = if q { 3 } else { 4 };
    v.push(plan(c, if q { 1 } else { 1 }, 2.0));

    // A mapped reference to a still-hidden entity reaches the client first (it creates a
    // placeholder for the target); then the client pre-spawns, the mapping is registered and
    // the entity becomes visible: the mapping must win over the placeholder. Only the adoption
    // oracle applies (a reference to a hidden entity is outside the convergence property).
    let mut c = cells::base("placeholder-then-map", "C16");
    c.cfg.vis = Vis::Whitelist;
    c.cfg.with_r = true;
    c.init = vec![Op::Spawn(0, cells::M_A), Op::Vis(0, 0, true), Op::Spawn(1, cells::M_A)];
    c.alphabet = vec![Op::Nop, Op::InsRef(0, 1), Op::MapLate(0, 1), Op::Vis(0, 1, true), Op::Mut(1, TA), Op::Mut(0, TA)];
    c.env = Env { hold_acks: false, hold_updates: 1, mutations: MutMenu::Hold, leftover_choice: false, lossy: false };
    c.oracles = Oracles { c16: true, ..Default::default() };
    c.rounds = if q { 3 } else { 4 };
    v.push(plan(c, 1, 1.0));

    // Custom authorization: the game fills the entity map of a connected client before it
    // authorizes it (the flow the documentation of the map describes).
    {
        use crate::events::*;
        let mut cfg = Cfg::default();
        cfg.events = true;
        cfg.auth = Auth::Custom;
        cfg.clients = vec![1200, 1200];
        let c = EvCell {
            name: "c16-early-auth".into(),
            property: "C16",
            cfg,
            connect_at_start: vec![],
            init: vec![Op::Spawn(0, cells::AB)],
            alphabet: vec![
                EvOp::Nop,
                EvOp::Connect(0),
                EvOp::Connect(1),
                EvOp::World(Op::MapPreEarly(0, 1)),
                EvOp::World(Op::MapPreEarly(1, 2)),
                EvOp::Authorize(0),
                EvOp::Authorize(1),
                EvOp::World(Op::Mut(1, TA)),
                EvOp::EmitS(SK::EI, Mode::Broadcast, None),
            ],
            rounds: if q { 4 } else { 5 },
            tick_choice: true,
            env: EvEnv { hold_updates: 1, hold_events: false, reorder: false, drop_unreliable: false, hold_client_events: false, hold_mutations: false, hold_acks: false, update_latency: 0, update_batch: 0 },
            oracles: EvOracles { c16: true, convergence: true, ..Default::default() },
            closure_rounds: 5,
        };
        v.push(plan(c, if q { 0 } else { 1 }, 2.0));
    }
    v
}

pub const RULE: &str = "all timings of the pre-spawn mapping relative to the spawn (same frame, earlier frame of the tick window, ahead of the marker, ahead of visibility), extra structural and mutation traffic on the same and other entities, client-side despawn of the pre-spawned entity before the mapping arrives, a pre-spawned entity that already carries the marker or the server entity's own id, a second client without mapping, x reliable-channel delays with <= d deviations; after every client frame: one client entity per server entity, adoption of the pre-spawned entity, fresh entity otherwise; after closure the despawn of a mapped server entity has taken the pre-spawned entity with it; non-trivial = at least one structural operation";
