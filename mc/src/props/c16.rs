use crate::{explore::Violation, repl::{ReplCell, ReplExec}, sim::ClientView};

pub fn check_frame(_cell: &ReplCell, _x: &mut ReplExec, _c: usize, _view: &ClientView) -> Result<(), Violation> {
    Ok(())
}
