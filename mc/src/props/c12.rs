//! C12: tick-confirmation queries agree with what was actually received.
//!
//! (a) explicit-state breadth-first search over the real `ConfirmHistory`, `ServerMutateTicks`
//!     and `RepliconTick` with complete state keys, against a plain-set reference model;
//! (b) end to end with mutate-message tracking: the split-delivery stage of `c10.rs`.

use std::{
    collections::{BTreeMap, BTreeSet, HashSet, VecDeque},
    panic::{AssertUnwindSafe, catch_unwind},
    path::PathBuf,
};

use bevy_replicon::{
    client::{confirm_history::ConfirmHistory, server_mutate_ticks::ServerMutateTicks},
    prelude::RepliconTick,
};
use serde_json::json;

use crate::{
    cells,
    check::{self, CellPlan, Outcome, Tier, plan},
    explore::MachineryError,
    repl::{Env, MutMenu, Oracles},
    sim::*,
};

const DELTAS: &[i64] = &[
    -66, -65, -64, -63, -62, -33, -2, -1, 0, 1, 2, 31, 32, 33, 62, 63, 64, 65, 66, 127, 128,
];

fn bases() -> Vec<i64> {
    let w = 1i64 << 32;
    let mut v = vec![0, 1, 63, 64, (1 << 31) - 1, 1 << 31, (1 << 31) + 1];
    for d in [70, 65, 64, 63, 33, 2, 1] {
        v.push(w - d);
    }
    v
}

fn tick(p: i64) -> RepliconTick {
    RepliconTick::new(p.rem_euclid(1i64 << 32) as u32)
}

/// Reference model: the plain set of confirmed ticks in unwrapped positions.
#[derive(Clone, Default)]
struct SetModel {
    last: i64,
    confirmed: BTreeSet<i64>,
}

impl SetModel {
    fn new(base: i64) -> Self {
        Self { last: base, confirmed: [base].into() }
    }
    fn confirm(&mut self, t: i64) {
        self.confirmed.insert(t);
        self.last = self.last.max(t);
    }
    fn contains(&self, t: i64) -> bool {
        t <= self.last && (self.last - t >= 64 || self.confirmed.contains(&t))
    }
    fn contains_any(&self, s: i64, e: i64) -> bool {
        (s..=e).any(|t| self.contains(t))
    }
}

struct StructViolation {
    cell: &'static str,
    history: Vec<String>,
    query: String,
    detail: String,
    oracle: &'static str,
}

fn guarded_q<R>(f: impl FnOnce() -> R) -> Result<R, String> {
    crate::sim::guarded(f).map_err(|(m, l)| format!("{m} ({})", crate::sim::short_loc(&l)))
}

/// Replays a history of confirmations on the real struct.
fn build_history(base: i64, steps: &[i64]) -> Result<(ConfirmHistory, SetModel), String> {
    let mut h = ConfirmHistory::new(tick(base));
    let mut m = SetModel::new(base);
    for &t in steps {
        guarded_q(|| h.confirm(tick(t)))?;
        m.confirm(t);
    }
    Ok((h, m))
}

fn explore_confirm_history(depth: usize, out: &mut Outcome, viol: &mut Vec<StructViolation>) {
    let mut states = 0u64;
    let mut transitions = 0u64;
    let mut queries = 0u64;
    let mut outcomes: HashSet<(u64, bool)> = HashSet::new();
    for base in bases() {
        let mut visited: HashSet<(u64, u32)> = HashSet::new();
        let mut frontier: VecDeque<Vec<i64>> = VecDeque::new();
        frontier.push_back(vec![]);
        {
            let h = ConfirmHistory::new(tick(base));
            visited.insert((h.mask(), h.last_tick().get()));
        }
        while let Some(hist) = frontier.pop_front() {
            let show = |extra: Option<String>| -> Vec<String> {
                let mut v = vec![format!("new({})", tick(base).get())];
                v.extend(hist.iter().map(|t| format!("confirm({})", tick(*t).get())));
                v.extend(extra);
                v
            };
            let (h, m) = match build_history(base, &hist) {
                Ok(x) => x,
                Err(e) => {
                    viol.push(StructViolation { cell: "c12a-confirm-history", history: show(None), query: String::new(), detail: format!("panic while confirming: {e}"), oracle: "panic" });
                    continue;
                }
            };
            states += 1;
            // every query in the window around the last tick
            let mut bad: Option<(String, String, &'static str)> = None;
            'q: for t in (m.last - 70)..=(m.last + 3) {
                queries += 1;
                match guarded_q(|| h.contains(tick(t))) {
                    Ok(got) => {
                        outcomes.insert((h.mask(), got));
                        if got != m.contains(t) {
                            bad = Some((format!("contains({})", tick(t).get()), format!("returned {got}, a set of confirmed ticks says {}", m.contains(t)), "query-mismatch"));
                            break 'q;
                        }
                    }
                    Err(e) => {
                        bad = Some((format!("contains({})", tick(t).get()), format!("panicked: {e}"), "panic"));
                        break 'q;
                    }
                }
                for e in t..=(m.last + 3) {
                    queries += 1;
                    match guarded_q(|| h.contains_any(tick(t), tick(e))) {
                        Ok(got) => {
                            if got != m.contains_any(t, e) {
                                bad = Some((format!("contains_any({}, {})", tick(t).get(), tick(e).get()), format!("returned {got}, a set of confirmed ticks says {}", m.contains_any(t, e)), "query-mismatch"));
                                break 'q;
                            }
                        }
                        Err(e2) => {
                            bad = Some((format!("contains_any({}, {})", tick(t).get(), tick(e).get()), format!("panicked: {e2}"), "panic"));
                            break 'q;
                        }
                    }
                }
            }
            if let Some((q, d, oracle)) = bad {
                // keep exploring: a failing query does not change the state
                viol.push(StructViolation { cell: "c12a-confirm-history", history: show(None), query: q, detail: d, oracle });
            }
            if hist.len() >= depth {
                continue;
            }
            for &d in DELTAS {
                let t = m.last + d;
                if t < 0 {
                    continue;
                }
                transitions += 1;
                let mut next = hist.clone();
                next.push(t);
                match build_history(base, &next) {
                    Ok((h2, m2)) => {
                        // the effect of this very confirmation is judged here: the state it leads
                        // to may have been visited through another history (then it is not expanded)
                        queries += 1;
                        if let Ok(got) = guarded_q(|| h2.contains(tick(t))) {
                            if got != m2.contains(t) {
                                viol.push(StructViolation {
                                    cell: "c12a-confirm-history",
                                    history: show(Some(format!("confirm({})", tick(t).get()))),
                                    query: format!("contains({})", tick(t).get()),
                                    detail: format!("returned {got} right after the confirmation, a set of confirmed ticks says {}", m2.contains(t)),
                                    oracle: "query-mismatch",
                                });
                            }
                        }
                        if visited.insert((h2.mask(), h2.last_tick().get())) {
                            frontier.push_back(next);
                        }
                    }
                    Err(e) => {
                        viol.push(StructViolation { cell: "c12a-confirm-history", history: show(Some(format!("confirm({})", tick(t).get()))), query: String::new(), detail: format!("panicked: {e}"), oracle: "panic" });
                    }
                }
            }
        }
    }
    out.states += states;
    out.transitions += transitions + queries;
    out.evaluations += queries;
    out.nontrivial += queries;
    out.distinct_nontrivial += outcomes.len() as u64;
    out.distinct_outcomes += outcomes.len() as u64;
    out.reports.push(json!({"cell": "c12a-confirm-history", "states": states, "transitions": transitions, "queries": queries, "depth": depth, "bases": bases().len(), "deltas": DELTAS, "exhaustive_within_bound": true}));
    eprintln!("  cell c12a-confirm-history          states {states:>8} transitions {transitions:>8} queries {queries:>10}");
}

/// Reference model of the mutate-tick tracker: per tick (expected, received).
#[derive(Clone, Default)]
struct TrackModel {
    last: i64,
    ticks: BTreeMap<i64, (usize, usize)>,
    /// the same counters, never forgotten (what was really received, window or not)
    all: BTreeMap<i64, (usize, usize)>,
}
impl TrackModel {
    fn complete(&self, t: i64) -> bool {
        self.ticks.get(&t).is_some_and(|(e, r)| *e != 0 && e == r)
    }
    fn really_complete(&self, t: i64) -> bool {
        self.all.get(&t).is_some_and(|(e, r)| *e != 0 && e == r)
    }
    fn contains(&self, t: i64) -> bool {
        t <= self.last && (self.last - t >= 64 || self.complete(t))
    }
    fn contains_any(&self, s: i64, e: i64) -> bool {
        (s..=e).any(|t| self.contains(t))
    }
}

fn build_tracker(steps: &[(i64, usize)]) -> Result<(ServerMutateTicks, TrackModel, Vec<bool>), String> {
    let mut h = ServerMutateTicks::default();
    let mut m = TrackModel::default();
    let mut fired = Vec::new();
    for &(t, k) in steps {
        let r = guarded_q(|| h.confirm(tick(t), k))?;
        fired.push(r);
        if t > m.last {
            // everything that slides out of the window is forgotten by the real structure
            m.last = t;
        }
        let e = m.ticks.entry(t).or_insert((k, 0));
        e.1 += 1;
        let a = m.all.entry(t).or_insert((k, 0));
        a.1 += 1;
        let lo = m.last - 64;
        m.ticks.retain(|tt, _| *tt > lo);
    }
    Ok((h, m, fired))
}

fn explore_tracker(depth: usize, out: &mut Outcome, viol: &mut Vec<StructViolation>) {
    let deltas: &[i64] = &[-65, -64, -63, -2, -1, 0, 1, 2, 63, 64, 65];
    let mut states = 0u64;
    let mut transitions = 0u64;
    let mut queries = 0u64;
    let mut visited: HashSet<String> = HashSet::new();
    let mut frontier: VecDeque<Vec<(i64, usize)>> = VecDeque::new();
    frontier.push_back(vec![]);
    while let Some(hist) = frontier.pop_front() {
        let show = || -> Vec<String> { hist.iter().map(|(t, k)| format!("confirm({}, {k})", tick(*t).get())).collect() };
        let (h, m, fired) = match build_tracker(&hist) {
            Ok(x) => x,
            Err(e) => {
                viol.push(StructViolation { cell: "c12a-mutate-ticks", history: show(), query: String::new(), detail: format!("panicked: {e}"), oracle: "panic" });
                continue;
            }
        };
        states += 1;
        // the return value of the last confirm says "this tick is now complete"
        if let (Some(&(t, _)), Some(&f)) = (hist.last(), fired.last()) {
            let in_window = m.last - t < 64;
            if in_window && f != m.complete(t) {
                viol.push(StructViolation { cell: "c12a-mutate-ticks", history: show(), query: "return value of the last confirm".into(), detail: format!("returned {f}, model says complete = {}", m.complete(t)), oracle: "query-mismatch" });
                continue;
            }
            // outside the window the structure cannot know: it may stay silent, but it must not
            // report a tick as fully received of which messages are still missing
            if !in_window && f && !m.really_complete(t) {
                viol.push(StructViolation { cell: "c12a-mutate-ticks", history: show(), query: "return value of the last confirm".into(), detail: format!("returned true for tick {} outside the window although only {:?} (expected, received) of its messages were confirmed", tick(t).get(), m.all.get(&t)), oracle: "query-mismatch" });
                continue;
            }
        }
        let mut bad = None;
        'q: for t in (m.last - 68).max(0)..=(m.last + 2) {
            queries += 1;
            match guarded_q(|| h.contains(tick(t))) {
                Ok(got) if got != m.contains(t) => {
                    bad = Some((format!("contains({})", tick(t).get()), format!("returned {got}, model says {}", m.contains(t)), "query-mismatch"));
                    break 'q;
                }
                Err(e) => {
                    bad = Some((format!("contains({})", tick(t).get()), format!("panicked: {e}"), "panic"));
                    break 'q;
                }
                _ => {}
            }
            for e in t..=(m.last + 2) {
                queries += 1;
                match guarded_q(|| h.contains_any(tick(t), tick(e))) {
                    Ok(got) if got != m.contains_any(t, e) => {
                        bad = Some((format!("contains_any({}, {})", tick(t).get(), tick(e).get()), format!("returned {got}, model says {}", m.contains_any(t, e)), "query-mismatch"));
                        break 'q;
                    }
                    Err(e2) => {
                        bad = Some((format!("contains_any({}, {})", tick(t).get(), tick(e).get()), format!("panicked: {e2}"), "panic"));
                        break 'q;
                    }
                    _ => {}
                }
            }
        }
        if let Some((q, d, oracle)) = bad {
            viol.push(StructViolation { cell: "c12a-mutate-ticks", history: show(), query: q, detail: d, oracle });
        }
        if hist.len() >= depth {
            continue;
        }
        for &d in deltas {
            let t = m.last + d;
            if t < 0 {
                continue;
            }
            for k in [1usize, 2] {
                // legal inputs only: a tick keeps its message count and is confirmed at most k times
                if let Some(&(e, r)) = m.ticks.get(&t) {
                    if e != k || r >= e {
                        continue;
                    }
                }
                if m.last - t >= 64 {
                    // older than the window: accepted and ignored
                }
                transitions += 1;
                let mut next = hist.clone();
                next.push((t, k));
                match build_tracker(&next) {
                    Ok((h2, m2, fired2)) => {
                        // The return value belongs to the transition, not to the state reached
                        // (a confirmation outside the window leaves the state unchanged).
                        let f = *fired2.last().unwrap();
                        let in_window = m2.last - t < 64;
                        if !in_window && f && !m2.really_complete(t) {
                            let mut hh = show();
                            hh.push(format!("confirm({}, {k})", tick(t).get()));
                            viol.push(StructViolation {
                                cell: "c12a-mutate-ticks",
                                history: hh,
                                query: "return value of the last confirm".into(),
                                detail: format!("returned true for tick {} outside the window although (expected, received) = {:?}", tick(t).get(), m2.all.get(&t)),
                                oracle: "query-mismatch",
                            });
                            continue;
                        }
                        if in_window && f != m2.complete(t) {
                            let mut hh = show();
                            hh.push(format!("confirm({}, {k})", tick(t).get()));
                            viol.push(StructViolation {
                                cell: "c12a-mutate-ticks",
                                history: hh,
                                query: "return value of the last confirm".into(),
                                detail: format!("returned {f}, model says complete = {}", m2.complete(t)),
                                oracle: "query-mismatch",
                            });
                            continue;
                        }
                        if visited.insert(format!("{h2:?}")) {
                            frontier.push_back(next);
                        }
                    }
                    Err(e) => {
                        let mut hh = show();
                        hh.push(format!("confirm({}, {k})", tick(t).get()));
                        viol.push(StructViolation { cell: "c12a-mutate-ticks", history: hh, query: String::new(), detail: format!("panicked: {e}"), oracle: "panic" });
                    }
                }
            }
        }
    }
    out.states += states;
    out.transitions += transitions + queries;
    out.evaluations += queries;
    out.nontrivial += queries;
    out.reports.push(json!({"cell": "c12a-mutate-ticks", "states": states, "transitions": transitions, "queries": queries, "depth": depth, "exhaustive_within_bound": true}));
    eprintln!("  cell c12a-mutate-ticks             states {states:>8} transitions {transitions:>8} queries {queries:>10}");
}

fn explore_cmp(out: &mut Outcome, viol: &mut Vec<StructViolation>) {
    let w = 1i64 << 32;
    let mut points: BTreeSet<i64> = BTreeSet::new();
    for b in [0i64, 1, 63, 64, 65, (1 << 31) - 1, 1 << 31, (1 << 31) + 1, w - 65, w - 64, w - 2, w - 1] {
        for d in -2..=2 {
            points.insert((b + d).rem_euclid(w));
        }
    }
    let mut n = 0u64;
    for &a in &points {
        for &b in &points {
            let dist = (b - a).rem_euclid(w);
            if dist == 1 << 31 {
                continue; // exactly half the range apart: order unspecified
            }
            n += 1;
            let want = if dist == 0 {
                std::cmp::Ordering::Equal
            } else if dist < (1 << 31) {
                std::cmp::Ordering::Less
            } else {
                std::cmp::Ordering::Greater
            };
            let got = tick(a).cmp(&tick(b));
            if got != want {
                viol.push(StructViolation { cell: "c12a-tick-cmp", history: vec![], query: format!("RepliconTick({a}).cmp(RepliconTick({b}))"), detail: format!("returned {got:?}, wrapping distance says {want:?}"), oracle: "query-mismatch" });
            }
        }
    }
    out.states += points.len() as u64;
    out.transitions += n;
    out.evaluations += n;
    out.nontrivial += n;
    out.distinct_nontrivial += 3;
    out.reports.push(json!({"cell": "c12a-tick-cmp", "points": points.len(), "pairs": n, "exhaustive_within_bound": true}));
    eprintln!("  cell c12a-tick-cmp                 points {:>8} pairs {n:>8}", points.len());
}

fn write_struct_replay(v: &StructViolation) -> PathBuf {
    let dir = std::path::Path::new(&check::verif_root()).join("replays").join("C12");
    let _ = std::fs::create_dir_all(&dir);
    let h = crate::explore::hash_of(&(v.cell, &v.history, &v.query));
    let path = dir.join(format!("{:016x}.json", h));
    let doc = json!({
        "property": "C12", "kind": "struct", "cell": v.cell, "history": v.history, "query": v.query,
        "violation": {"property": "C12", "oracle": v.oracle, "detail": v.detail},
    });
    std::fs::write(&path, serde_json::to_string_pretty(&doc).unwrap()).unwrap();
    path
}

pub fn end_to_end_cells(tier: Tier) -> Vec<CellPlan> {
    let q = tier.quick();
    let mut v = Vec::new();
    // Entities carrying a marker that asks for history: late mutate messages are applied and
    // must be recorded in the per-entity confirmation history.
    for off in [0u32, u32::MAX - 5] {
        let mut c = cells::base(&format!("history-marker-off{off}"), "C12");
        c.cfg.hist = true;
        c.cfg.tick_offset = off;
        c.init = vec![Op::Spawn(0, cells::AB), Op::Spawn(1, cells::M_A)];
        c.alphabet = vec![Op::Nop, Op::Mut(0, TA), Op::Mut(1, TA), Op::Mut(0, TB), Op::Rm(0, TB), Op::Ins(0, TB)];
        c.tick_choice = false;
        c.rounds = if q { 3 } else { 4 };
        c.env = Env { hold_acks: true, hold_updates: 0, mutations: MutMenu::Full, leftover_choice: false, lossy: false };
        c.oracles = Oracles { c12: true, c02: true, ..Default::default() };
        v.push(plan(c.clone(), if q { 2 } else { 3 }, 2.0));
        if off == 0 {
            // marked and plain entities side by side
            let mut m = c;
            m.name = "c12-history-mixed".into();
            m.cfg.hist_mixed = true;
            m.init = vec![Op::Spawn(0, cells::AB), Op::Spawn(1, cells::M_A), Op::Spawn(2, cells::M_A)];
            m.alphabet = vec![Op::Nop, Op::Mut(0, TA), Op::Mut(1, TA), Op::Mut(2, TA)];
            v.push(plan(m, if q { 2 } else { 3 }, 2.0));
        }
    }
    let mut offsets = vec![0u32];
    if !q {
        offsets.extend([u32::MAX - 3, (1u32 << 31) - 3]);
    }
    for off in offsets {
        for &max in &[40usize, 1200] {
            let mut c = cells::base(&format!("track-{max}-off{off}"), "C12");
            c.cfg.track = true;
            c.cfg.tick_offset = off;
            c.cfg.clients = vec![max];
            c.init = vec![Op::Spawn(0, cells::AB), Op::Spawn(1, cells::AB), Op::Spawn(2, cells::AB)];
            c.alphabet = vec![Op::Nop, Op::Mut(0, TA), Op::Mut(1, TA), Op::Despawn(2), Op::Rm(1, TB)];
            c.rounds = if q { 2 } else { 3 };
            c.env = Env { hold_acks: true, hold_updates: 1, mutations: MutMenu::Full, leftover_choice: false, lossy: false };
            c.split_stage = true;
            c.oracles = Oracles { c12: true, ..Default::default() };
            if off != 0 {
                // around the wrap point only the notification oracle is meaningful
                c.env = Env::perfect();
            }
            v.push(plan(c, if q { 1 } else { 2 }, 2.0));
        }
    }
    v
}

pub fn run(tier: Tier, budget: f64, out: &mut Outcome) -> Result<(), MachineryError> {
    out.rule = RULE.into();
    let mut viol = Vec::new();
    let r = catch_unwind(AssertUnwindSafe(|| {
        explore_confirm_history(if tier.quick() { 3 } else { 4 }, out, &mut viol);
        explore_tracker(if tier.quick() { 3 } else { 4 }, out, &mut viol);
        explore_cmp(out, &mut viol);
    }));
    if r.is_err() {
        return Err(MachineryError("harness panic in the explicit-state part of C12".into()));
    }
    out.violation_total += viol.len() as u64;
    // classify: known findings are keyed on the cell and the failing query kind
    let findings = check::load_findings();
    let mut seen = BTreeSet::new();
    viol.sort_by_key(|v| (v.history.len(), v.query.len()));
    for v in &viol {
        let kind = v.query.split('(').next().unwrap_or("").to_string();
        let feats: BTreeSet<String> = [format!("cell:{}", v.cell), format!("query:{kind}")].into();
        if !seen.insert((v.cell, kind.clone(), v.oracle)) {
            continue;
        }
        if let Some(k) = findings.findings.iter().find(|f| check::matches_known(f, "C12", v.oracle, &feats)) {
            out.known_hits.push(format!("KNOWN-FINDING: property=C12 {}", k.what));
            continue;
        }
        out.new_violations.push(write_struct_replay(v));
    }
    out.samples.push(json!({"cell": "c12a-confirm-history", "history": ["new(4294967231)", "confirm(4294967295)", "confirm(0)"], "queries": "contains(t), contains_any(s,e) for all s<=e in [last-70,last+3]"}));
    crate::props::regression_replays("C12", out)?;
    check::run_cells(out, end_to_end_cells(tier), budget * 0.6, 12)
}

/// Replays a struct-level violation file.
pub fn replay_struct(doc: &serde_json::Value) -> i32 {
    println!("history: {}", doc["history"]);
    println!("query:   {}", doc["query"]);
    // re-run the explicit-state search of the cell and look for the same history/query
    let mut out = Outcome::new("C12", Tier::Thorough, 0);
    let mut viol = Vec::new();
    match doc["cell"].as_str().unwrap_or("") {
        "c12a-confirm-history" => explore_confirm_history(4, &mut out, &mut viol),
        "c12a-mutate-ticks" => explore_tracker(4, &mut out, &mut viol),
        _ => explore_cmp(&mut out, &mut viol),
    }
    let want_h: Vec<String> = doc["history"].as_array().map(|a| a.iter().map(|s| s.as_str().unwrap().to_string()).collect()).unwrap_or_default();
    let want_q = doc["query"].as_str().unwrap_or("");
    for v in &viol {
        if v.history == want_h && v.query == want_q {
            println!("VIOLATION property=C12 replay=<file> oracle={} :: {}", v.oracle, v.detail);
            return 1;
        }
    }
    println!("replay passes: no violation");
    0
}

pub const RULE: &str = "(a) explicit-state BFS with complete keys over the real ConfirmHistory (mask,last_tick) and ServerMutateTicks (Debug form): confirmations at distances in and around the 64-tick window from bases including the 32-bit wrap point and the sign boundary, depth <= 3/4; in every state all contains / contains_any queries in [last-70,last+3] against a plain set model; RepliconTick::cmp on all pairs of boundary points; (b) end to end with tracking: histories x schedules, then every ordered subset of the final tick's mutate messages first and the rest later; MutateTickReceived and ServerMutateTicks::contains must report the tick exactly when all its messages were applied; non-trivial = query evaluated / mutate message delivered";
