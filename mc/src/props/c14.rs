//! C14: the protocol hash separates compatible from incompatible builds.
use std::collections::{BTreeMap, BTreeSet, HashMap};

use bevy::prelude::*;
use bevy_replicon::{
    prelude::*,
    shared::replication::replication_registry::rule_fns::RuleFns,
};
use rayon::prelude::*;
use serde::{Deserialize, Serialize};
use serde_json::json;

use crate::{
    check::{self, Outcome, Tier},
    explore::MachineryError,
};

#[derive(Component, Serialize, Deserialize, Clone)]
struct HA(u8);
#[derive(Component, Serialize, Deserialize, Clone)]
struct HB(u8);
#[derive(Event, Serialize, Deserialize, Clone)]
struct X1(u8);
#[derive(Event, Serialize, Deserialize, Clone)]
struct X2(u8);
#[derive(Event, Serialize, Deserialize, Clone)]
struct Y1(u8);
#[derive(Event, Serialize, Deserialize, Clone)]
struct Y2(u8);

#[derive(Component, Serialize, Deserialize, Clone)]
struct HC(u8);
#[derive(Event, Serialize, Deserialize, Clone)]
struct Wrap<T>(T);
#[derive(Event, Serialize, Deserialize, Clone)]
struct Other<T>(T);

/// A second, small vocabulary (items 100..): registrations that differ only in the direction of
/// an event type, only in the outer type of a generic event, or only in a non-last component of
/// a multi-component rule.
const NAMES2: [&str; 8] = [
    "client_event<X1>",
    "server_event<X1>",
    "client_event<Wrap<X1>>",
    "client_event<Other<X1>>",
    "server_event<Wrap<Y1>>",
    "server_event<Other<Y1>>",
    "replicate_with<(A,B)>",
    "replicate_with<(C,B)>",
];

const ITEMS: usize = 15;
const NAMES: [&str; ITEMS] = [
    "replicate<A>",
    "replicate<A> priority 2",
    "replicate<B>",
    "replicate_bundle<(A,B)>",
    "client_event<X1>",
    "client_event<X2>",
    "client_trigger<X1>",
    "server_event<Y1>",
    "server_event<Y2>",
    "server_trigger<Y1>",
    "server_trigger<Y2>",
    "independent_event<Y1>",
    "independent_trigger<Y1>",
    "replicate<A> priority 2^32+2",
    "replicate_bundle<(B,A)>",
];

fn apply(app: &mut App, item: usize) {
    match item {
        0 => {
            app.replicate::<HA>();
        }
        1 => {
            app.replicate_with_priority(2, RuleFns::<HA>::default());
        }
        2 => {
            app.replicate::<HB>();
        }
        3 => {
            app.replicate_bundle::<(HA, HB)>();
        }
        4 => {
            app.add_client_event::<X1>(Channel::Ordered);
        }
        5 => {
            app.add_client_event::<X2>(Channel::Ordered);
        }
        6 => {
            app.add_client_trigger::<X1>(Channel::Ordered);
        }
        7 => {
            app.add_server_event::<Y1>(Channel::Ordered);
        }
        8 => {
            app.add_server_event::<Y2>(Channel::Ordered);
        }
        9 => {
            app.add_server_trigger::<Y1>(Channel::Ordered);
        }
        10 => {
            app.add_server_trigger::<Y2>(Channel::Ordered);
        }
        11 => {
            app.make_event_independent::<Y1>();
        }
        12 => {
            app.make_trigger_independent::<Y1>();
        }
        14 => {
            // the same position and kind as item 3, another bundle type
            app.replicate_bundle::<(HB, HA)>();
        }
        100 => {
            app.add_client_event::<X1>(Channel::Ordered);
        }
        101 => {
            app.add_server_event::<X1>(Channel::Ordered);
        }
        102 => {
            app.add_client_event::<Wrap<X1>>(Channel::Ordered);
        }
        103 => {
            app.add_client_event::<Other<X1>>(Channel::Ordered);
        }
        104 => {
            app.add_server_event::<Wrap<Y1>>(Channel::Ordered);
        }
        105 => {
            app.add_server_event::<Other<Y1>>(Channel::Ordered);
        }
        106 => {
            app.replicate_with((RuleFns::<HA>::default(), RuleFns::<HB>::default()));
        }
        107 => {
            app.replicate_with((RuleFns::<HC>::default(), RuleFns::<HB>::default()));
        }
        13 => {
            // equal to item 1 modulo 2^32
            app.replicate_with_priority((1usize << 32) + 2, RuleFns::<HA>::default());
        }
        _ => unreachable!(),
    }
}

/// Well-formed: no item twice, independence marks only after the registration they refer to.
fn well_formed(seq: &[usize]) -> bool {
    let mut seen = BTreeSet::new();
    for &i in seq {
        if !seen.insert(i) {
            return false;
        }
        if i == 11 && !seen.contains(&7) {
            return false;
        }
        if i == 12 && !seen.contains(&9) {
            return false;
        }
    }
    true
}

fn sequences(max_len: usize) -> Vec<Vec<usize>> {
    let mut out = vec![vec![]];
    let mut layer = vec![vec![]];
    for _ in 0..max_len {
        let mut next = Vec::new();
        for s in &layer {
            for i in 0..ITEMS {
                let mut t: Vec<usize> = s.clone();
                t.push(i);
                if well_formed(&t) {
                    next.push(t);
                }
            }
        }
        out.extend(next.iter().cloned());
        layer = next;
    }
    out
}

fn build(seq: &[usize]) -> App {
    let mut app = App::new();
    app.init_resource::<Time>().add_plugins(
        RepliconPlugins.set(ServerPlugin { tick_policy: TickPolicy::EveryFrame, ..Default::default() }),
    );
    for &i in seq {
        apply(&mut app, i);
    }
    app.finish();
    app.cleanup();
    app
}

fn hash_of_seq(seq: &[usize]) -> String {
    let app = build(seq);
    format!("{:?}", app.world().resource::<ProtocolHash>())
}

/// Components that have nothing to do with the protocol (one side of a connection may have them).
#[derive(Component)]
struct Noise1;
#[derive(Component)]
struct Noise2(#[allow(dead_code)] u64);

/// The same registration sequence in an App that registered unrelated ECS components first
/// (component ids and archetypes differ, the protocol does not).
fn hash_of_seq_in_other_world(seq: &[usize]) -> String {
    let mut app = App::new();
    app.init_resource::<Time>().add_plugins(
        RepliconPlugins.set(ServerPlugin { tick_policy: TickPolicy::EveryFrame, ..Default::default() }),
    );
    app.world_mut().register_component::<Noise1>();
    app.world_mut().spawn((Noise1, Noise2(7)));
    for (k, &i) in seq.iter().enumerate() {
        if k == 1 {
            app.world_mut().register_component::<Noise2>();
        }
        apply(&mut app, i);
    }
    app.finish();
    app.cleanup();
    format!("{:?}", app.world().resource::<ProtocolHash>())
}

fn show(seq: &[usize]) -> String {
    format!("[{}]", seq.iter().map(|&i| if i >= 100 { NAMES2[i - 100] } else { NAMES[i] }).collect::<Vec<_>>().join(", "))
}

/// All sequences without repetition over the second vocabulary (an event type is registered in
/// one direction only within a sequence).
fn sequences2(max_len: usize) -> Vec<Vec<usize>> {
    let mut out: Vec<Vec<usize>> = vec![];
    let mut layer: Vec<Vec<usize>> = vec![vec![]];
    for _ in 0..max_len {
        let mut next = Vec::new();
        for s in &layer {
            for i in 100..100 + NAMES2.len() {
                if s.contains(&i) || (i == 100 && s.contains(&101)) || (i == 101 && s.contains(&100)) {
                    continue;
                }
                let mut t = s.clone();
                t.push(i);
                next.push(t);
            }
        }
        out.extend(next.iter().cloned());
        layer = next;
    }
    out
}

/// Sequences within one edit (insert, delete, substitute, swap of neighbours) of `s`.
fn neighbours(s: &[usize]) -> Vec<Vec<usize>> {
    let mut out: BTreeSet<Vec<usize>> = BTreeSet::new();
    for i in 0..s.len() {
        let mut t = s.to_vec();
        t.remove(i);
        out.insert(t);
        for x in 0..ITEMS {
            let mut t = s.to_vec();
            t[i] = x;
            out.insert(t);
        }
        if i + 1 < s.len() {
            let mut t = s.to_vec();
            t.swap(i, i + 1);
            out.insert(t);
        }
    }
    for i in 0..=s.len() {
        for x in 0..ITEMS {
            let mut t = s.to_vec();
            t.insert(i, x);
            out.insert(t);
        }
    }
    out.into_iter().filter(|t| well_formed(t)).collect()
}

#[derive(Debug)]
struct Bad {
    oracle: &'static str,
    a: Vec<usize>,
    b: Vec<usize>,
    detail: String,
}

#[derive(Resource, Default)]
struct Requests(Vec<Entity>);

/// Real handshake between a server built from `s` and a client built from `c`.
fn handshake(s: &[usize], c: &[usize]) -> Result<(), Bad> {
    handshake_with(s, c, false, false)?;
    // the transport reports `Connecting` for a few frames before `Connected`
    handshake_with(s, c, true, false)?;
    // the transport loses everything that travels on a channel registered as unreliable
    handshake_with(s, c, false, true)?;
    handshake_reconnect(s, c)
}

/// Two sessions of the same client app in a row: the second handshake must decide like the first.
fn handshake_reconnect(s: &[usize], c: &[usize]) -> Result<(), Bad> {
    let mut server = build(s);
    let mut client = build(c);
    let same = s == c;
    server.world_mut().resource_mut::<RepliconServer>().set_running(true);
    let mut verdicts = Vec::new();
    for _session in 0..2 {
        let conn = server.world_mut().spawn(ConnectedClient { max_size: 1200 }).id();
        client.world_mut().resource_mut::<RepliconClient>().set_status(RepliconClientStatus::Connected);
        for _ in 0..3 {
            client.update();
            let sent: Vec<_> = client.world_mut().resource_mut::<RepliconClient>().drain_sent().collect();
            for (ch, m) in sent {
                if ch == 1 {
                    server.world_mut().resource_mut::<RepliconServer>().insert_received(conn, ch, m);
                }
            }
            server.update();
            let _ = server.world_mut().resource_mut::<RepliconServer>().drain_sent().count();
        }
        verdicts.push(server.world().entity(conn).contains::<AuthorizedClient>());
        server.world_mut().entity_mut(conn).despawn();
        client.world_mut().resource_mut::<RepliconClient>().set_status(RepliconClientStatus::Disconnected);
        client.update();
        server.update();
    }
    if verdicts != vec![same, same] {
        return Err(Bad {
            oracle: "authorization-after-reconnect",
            a: s.to_vec(),
            b: c.to_vec(),
            detail: format!("sequences {}: the client was authorized = {:?} in two consecutive sessions", if same { "are equal" } else { "differ" }, verdicts),
        });
    }
    Ok(())
}

fn handshake_with(s: &[usize], c: &[usize], slow: bool, lossy: bool) -> Result<(), Bad> {
    let mut server = build(s);
    let mut client = build(c);
    server.init_resource::<Requests>();
    server.add_systems(Update, |mut r: EventReader<DisconnectRequest>, mut out: ResMut<Requests>| {
        for e in r.read() {
            out.0.push(e.client);
        }
    });
    let same = s == c;
    server.world_mut().resource_mut::<RepliconServer>().set_running(true);
    // a bystander built with the server's own protocol connects first
    let mut bystander = build(s);
    let by_conn = server.world_mut().spawn(ConnectedClient { max_size: 1200 }).id();
    bystander.world_mut().resource_mut::<RepliconClient>().set_status(RepliconClientStatus::Connected);
    let conn = server.world_mut().spawn(ConnectedClient { max_size: 1200 }).id();
    if slow {
        client.world_mut().resource_mut::<RepliconClient>().set_status(RepliconClientStatus::Connecting);
        for _ in 0..4 {
            client.update();
        }
    }
    client.world_mut().resource_mut::<RepliconClient>().set_status(RepliconClientStatus::Connected);
    let mut to_client: Vec<(usize, bevy_replicon::bytes::Bytes)> = Vec::new();
    let mut to_bystander: Vec<(usize, bevy_replicon::bytes::Bytes)> = Vec::new();
    // ... and a third connection goes away in the frame in which the handshakes arrive
    let mut leaver = Some(server.world_mut().spawn(ConnectedClient { max_size: 1200 }).id());
    for _ in 0..3 {
        for (app, id) in [(&mut bystander, by_conn), (&mut client, conn)] {
            app.update();
            let sent: Vec<_> = app.world_mut().resource_mut::<RepliconClient>().drain_sent().collect();
            for (ch, m) in sent {
                let kind = app.world().resource::<RepliconChannels>().client_channels()[ch];
                if lossy && kind == Channel::Unreliable {
                    continue;
                }
                // Only the handshake channel is common to both protocols.
                if ch == 1 {
                    server.world_mut().resource_mut::<RepliconServer>().insert_received(id, ch, m);
                }
            }
        }
        if let Some(l) = leaver.take() {
            server.world_mut().entity_mut(l).despawn();
        }
        server.update();
        let sent: Vec<_> = server.world_mut().resource_mut::<RepliconServer>().drain_sent().collect();
        for (to, ch, m) in sent {
            let kind = server.world().resource::<RepliconChannels>().server_channels()[ch];
            if lossy && kind == Channel::Unreliable {
                continue;
            }
            if to == conn {
                to_client.push((ch, m));
            } else {
                to_bystander.push((ch, m));
            }
        }
    }
    let authorized = server.world().entity(conn).contains::<AuthorizedClient>();
    let bad = |oracle: &'static str, detail: String| Bad {
        oracle,
        a: s.to_vec(),
        b: c.to_vec(),
        detail: if slow {
            format!("{detail} (client status went through Connecting for four frames)")
        } else if lossy {
            format!("{detail} (messages on channels registered as unreliable were lost)")
        } else {
            detail
        },
    };
    if authorized != same {
        return Err(bad(
            "authorization",
            format!("sequences {} => client authorized = {authorized}", if same { "are equal" } else { "differ" }),
        ));
    }
    if !same {
        // (the notification itself travels on a channel without delivery guarantee)
        if !lossy && !to_client.iter().any(|(ch, _)| *ch == 2) {
            return Err(bad("no-mismatch-notification", "no ProtocolMismatch message was sent to the client".into()));
        }
        if !server.world().resource::<Requests>().0.contains(&conn) {
            return Err(bad("no-disconnect-request", "no DisconnectRequest names the client".into()));
        }
    } else if to_client.iter().any(|(ch, _)| *ch == 2) {
        return Err(bad("spurious-mismatch", "ProtocolMismatch was sent although the protocols are equal".into()));
    }
    // the bystander is compatible whatever the other client sent
    if !server.world().entity(by_conn).contains::<AuthorizedClient>() {
        return Err(bad("bystander-not-authorized", "a client with the server's protocol was not authorized while another client performed its handshake".into()));
    }
    if to_bystander.iter().any(|(ch, _)| *ch == 2) {
        return Err(bad("bystander-notified", "ProtocolMismatch was sent to a client whose protocol equals the server's".into()));
    }
    if server.world().resource::<Requests>().0.contains(&by_conn) {
        return Err(bad("bystander-disconnect-request", "a DisconnectRequest names a client whose protocol equals the server's".into()));
    }
    Ok(())
}

/// Subprocess entry: prints the hash of every sequence (cross-process determinism).
pub fn print_hashes(max_len: usize) -> i32 {
    for s in sequences(max_len) {
        println!("{:?} {}", s, hash_of_seq(&s));
    }
    0
}

pub fn run(tier: Tier, _budget: f64, out: &mut Outcome) -> Result<(), MachineryError> {
    out.rule = RULE.into();
    let q = tier.quick();
    let max_len = if q { 4 } else { 5 };
    let seqs = sequences(max_len);
    let hashes: Vec<(Vec<usize>, String)> = seqs.par_iter().map(|s| (s.clone(), hash_of_seq(s))).collect();
    let mut bad: Vec<Bad> = Vec::new();

    // equal sequences => equal hash, also in a second run inside this process
    let again: Vec<String> = seqs.par_iter().map(|s| hash_of_seq(s)).collect();
    for ((s, h), h2) in hashes.iter().zip(&again) {
        if h != h2 {
            bad.push(Bad { oracle: "nondeterministic-hash", a: s.clone(), b: s.clone(), detail: format!("{h} vs {h2} for the same registrations in one process") });
        }
    }
    // ... and in an App whose world holds unrelated components (other component ids)
    let other: Vec<String> = seqs.par_iter().map(|s| hash_of_seq_in_other_world(s)).collect();
    for ((s, h), h2) in hashes.iter().zip(&other) {
        if h != h2 {
            bad.push(Bad { oracle: "hash-depends-on-unrelated-state", a: s.clone(), b: s.clone(), detail: format!("{h} vs {h2} for the same registrations in an App that registered unrelated components first") });
        }
    }
    // a registration after the hash was finalized must not go through silently
    for item in 0..ITEMS {
        if !well_formed(&[item]) {
            continue;
        }
        let mut app = build(&[]);
        let before = format!("{:?}", app.world().resource::<ProtocolHash>());
        let accepted = crate::sim::guarded(|| apply(&mut app, item)).is_ok();
        let after = format!("{:?}", app.world().resource::<ProtocolHash>());
        if accepted && before == after {
            bad.push(Bad { oracle: "late-registration-not-hashed", a: vec![], b: vec![item], detail: format!("`{}` was accepted after the protocol hash had been finalized, and the hash did not change: a peer without it has the same hash", NAMES[item]) });
        }
    }
    // ... and in a second process
    let exe = std::env::current_exe().map_err(|e| MachineryError(e.to_string()))?;
    let sub_len = max_len.min(3);
    let o = std::process::Command::new(exe)
        .arg("c14-hashes")
        .arg(sub_len.to_string())
        .output()
        .map_err(|e| MachineryError(e.to_string()))?;
    let other: HashMap<String, String> = String::from_utf8_lossy(&o.stdout)
        .lines()
        .filter_map(|l| l.rsplit_once("] ").map(|(a, b)| (format!("{a}]"), b.to_string())))
        .collect();
    let mut cross = 0u64;
    for (s, h) in &hashes {
        if s.len() <= sub_len {
            match other.get(&format!("{s:?}")) {
                Some(h2) if h2 == h => cross += 1,
                Some(h2) => bad.push(Bad { oracle: "nondeterministic-hash", a: s.clone(), b: s.clone(), detail: format!("{h} in this process, {h2} in another process") }),
                None => return Err(MachineryError(format!("second process did not report sequence {s:?}"))),
            }
        }
    }
    // different sequences => different hash (all pairs, through a map)
    let mut by_hash: BTreeMap<&String, &Vec<usize>> = BTreeMap::new();
    for (s, h) in &hashes {
        if let Some(prev) = by_hash.insert(h, s) {
            bad.push(Bad { oracle: "hash-collision", a: prev.clone(), b: s.clone(), detail: format!("different registration sequences have the same protocol hash {h}") });
        }
    }
    let pairs = (hashes.len() as u64) * (hashes.len() as u64 - 1) / 2;

    // the second vocabulary: all pairs again, and a real handshake for every pair of single registrations
    let seqs2 = sequences2(if q { 2 } else { 3 });
    let hashes2: Vec<(Vec<usize>, String)> = seqs2.par_iter().map(|s| (s.clone(), hash_of_seq(s))).collect();
    let mut by_hash2: BTreeMap<&String, &Vec<usize>> = BTreeMap::new();
    for (s, h) in &hashes2 {
        if let Some(prev) = by_hash2.insert(h, s) {
            bad.push(Bad { oracle: "hash-collision", a: prev.clone(), b: s.clone(), detail: format!("different registration sequences have the same protocol hash {h}") });
        }
    }
    let mut handshakes2 = 0u64;
    for a in 100..100 + NAMES2.len() {
        for b in 100..100 + NAMES2.len() {
            handshakes2 += 1;
            if let Err(e) = handshake_with(&[a], &[b], false, false) {
                bad.push(e);
            }
        }
    }
    out.evaluations += hashes2.len() as u64 + handshakes2;
    out.nontrivial += hashes2.len() as u64 + handshakes2;
    out.transitions += (hashes2.len() as u64) * (hashes2.len() as u64 - 1) / 2 + handshakes2;
    out.reports.push(json!({"cell": "c14-second-vocabulary", "items": NAMES2, "sequences": hashes2.len(), "distinct_hashes": by_hash2.len(), "handshakes": handshakes2, "exhaustive_within_bound": true}));

    // real handshakes for all pairs at edit distance <= 1
    let base_len = if q { 2 } else { 3 };
    let bases: Vec<&Vec<usize>> = seqs.iter().filter(|s| s.len() <= base_len).collect();
    let hs: Vec<(u64, Vec<Bad>)> = bases
        .par_iter()
        .map(|s| {
            let mut n = 0;
            let mut b = Vec::new();
            let mut ns = neighbours(s);
            ns.push((*s).clone());
            for c in ns {
                n += 1;
                if let Err(e) = handshake(s, &c) {
                    b.push(e);
                }
            }
            (n, b)
        })
        .collect();
    let handshakes: u64 = hs.iter().map(|x| x.0).sum();
    for (_, b) in hs {
        bad.extend(b);
    }

    out.evaluations += hashes.len() as u64 * 2 + cross + handshakes;
    out.nontrivial += handshakes + hashes.len() as u64;
    out.states += hashes.len() as u64;
    out.transitions += pairs + handshakes;
    out.distinct_outcomes += by_hash.len() as u64;
    out.distinct_nontrivial += by_hash.len() as u64;
    out.samples.push(json!({"sequence": show(&seqs[seqs.len() / 2]), "hash": hashes[seqs.len() / 2].1}));
    out.samples.push(json!({"handshake": {"server": show(&[0, 4]), "client": show(&[4, 0])}}));
    out.reports.push(json!({
        "items": NAMES, "max_sequence_length": max_len, "sequences": hashes.len(), "distinct_hashes": by_hash.len(),
        "pairs_compared": pairs, "cross_process_comparisons": cross, "handshakes": handshakes, "handshake_base_length": base_len,
        "exhaustive_within_bound": true,
    }));
    eprintln!("  C14: {} sequences, {} distinct hashes, {pairs} pairs, {cross} cross-process, {handshakes} handshakes", hashes.len(), by_hash.len());

    let findings = check::load_findings();
    out.violation_total += bad.len() as u64;
    let mut seen = BTreeSet::new();
    bad.sort_by_key(|b| (b.a.len() + b.b.len(), b.a.clone(), b.b.clone()));
    for b in &bad {
        if !seen.insert(b.oracle) && out.new_violations.len() >= 3 {
            continue;
        }
        let feats: BTreeSet<String> = BTreeSet::new();
        if let Some(k) = findings.findings.iter().find(|f| check::matches_known(f, "C14", b.oracle, &feats)) {
            out.known_hits.push(format!("KNOWN-FINDING: property=C14 {}", k.what));
            continue;
        }
        let dir = std::path::Path::new(&check::verif_root()).join("replays").join("C14");
        let _ = std::fs::create_dir_all(&dir);
        let path = dir.join(format!("{:016x}.json", crate::explore::hash_of(&(b.oracle, &b.a, &b.b))));
        let doc = json!({"property": "C14", "kind": "protocol", "a": b.a, "b": b.b, "a_shown": show(&b.a), "b_shown": show(&b.b),
            "violation": {"property": "C14", "oracle": b.oracle, "detail": b.detail}});
        std::fs::write(&path, serde_json::to_string_pretty(&doc).unwrap()).unwrap();
        out.new_violations.push(path);
    }
    Ok(())
}

pub fn replay(doc: &serde_json::Value) -> i32 {
    let get = |k: &str| -> Vec<usize> { doc[k].as_array().unwrap().iter().map(|v| v.as_u64().unwrap() as usize).collect() };
    let (a, b) = (get("a"), get("b"));
    println!("server registrations: {}", show(&a));
    println!("client registrations: {}", show(&b));
    let (ha, hb) = (hash_of_seq(&a), hash_of_seq(&b));
    println!("hashes: {ha} / {hb}");
    if (a == b) != (ha == hb) {
        println!("VIOLATION property=C14 replay=<file> oracle=hash :: equal sequences = {}, equal hashes = {}", a == b, ha == hb);
        return 1;
    }
    match handshake(&a, &b) {
        Ok(()) => {
            println!("replay passes: no violation");
            0
        }
        Err(e) => {
            println!("VIOLATION property=C14 replay=<file> oracle={} :: {}", e.oracle, e.detail);
            1
        }
    }
}

pub const RULE: &str = "all well-formed registration sequences of length <= 4 (quick) / <= 5 (thorough) over 13 registration items (single rule, custom priority, bundle, client/server events and triggers, independence marks): equal sequences give equal hashes within the process, across two runs and across two processes; all pairs of different sequences give different hashes; for every pair within one edit (insert, delete, substitute, swap) of a base sequence of length <= 2/3 the real handshake is run on two real Apps: authorized iff equal, otherwise ProtocolMismatch is sent and a DisconnectRequest names the client";
