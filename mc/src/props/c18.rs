//! C18: scene export contains exactly the replicated state.
use std::collections::{BTreeMap, BTreeSet};

use bevy::{prelude::*, scene::serde::SceneDeserializer};
use bevy_replicon::{prelude::*, scene, shared::replication::replication_registry::rule_fns::RuleFns};
use rayon::prelude::*;
use serde::{Deserialize, Serialize, de::DeserializeSeed};
use serde_json::json;

use crate::{
    check::{self, Outcome, Tier},
    explore::MachineryError,
    sim::guarded,
};

#[derive(Component, Default, Deserialize, Reflect, Serialize, Clone, PartialEq, Debug)]
#[reflect(Component)]
struct Ra(u8);
/// Its reflected type path differs from the Rust type name.
#[derive(Component, Default, Deserialize, Reflect, Serialize, Clone, PartialEq, Debug)]
#[reflect(Component)]
#[type_path = "game::components"]
#[type_name = "Armor"]
struct Rb(u8);
/// Reflected, but the type is never registered in the type registry.
#[derive(Component, Default, Deserialize, Reflect, Serialize, Clone, PartialEq, Debug)]
#[reflect(Component)]
struct Un(u8);
/// Registered with the type registry but without `#[reflect(Component)]`.
#[derive(Component, Default, Deserialize, Reflect, Serialize, Clone, PartialEq, Debug)]
struct Nc(u8);
/// Registered and reflected, but no replication rule selects it.
#[derive(Component, Default, Deserialize, Reflect, Serialize, Clone, PartialEq, Debug)]
#[reflect(Component)]
struct Nr(u8);

const RULES: [&str; 8] = ["rule Ra", "rule Rb", "bundle (Ra,Rb)", "rule Ra priority 5", "rule Un", "bundle (Ra,Un)", "bundle (Ra,Nc,Rb)", "bundle (Rb,Ra)"];
// component bits
const CA: u8 = 1;
const CB: u8 = 2;
const CU: u8 = 4;
const CN: u8 = 8;
const CC: u8 = 16;

#[derive(Clone, Copy, Debug, PartialEq, Eq, PartialOrd, Ord, Serialize)]
struct Ent {
    marked: bool,
    comps: u8,
}

#[derive(Clone, Debug, Serialize)]
struct Case {
    rules: u16,
    ents: Vec<Ent>,
    prefilled: bool,
}

impl Case {
    fn show(&self) -> String {
        let rules: Vec<&str> = (0..8).filter(|i| self.rules & (1 << i) != 0).map(|i| RULES[i]).collect();
        let ents: Vec<String> = self
            .ents
            .iter()
            .map(|e| {
                let mut c = Vec::new();
                if e.marked {
                    c.push("Replicated");
                }
                for (b, n) in [(CA, "Ra"), (CB, "Rb"), (CU, "Un"), (CN, "Nr"), (CC, "Nc")] {
                    if e.comps & b != 0 {
                        c.push(n);
                    }
                }
                format!("{{{}}}", c.join(","))
            })
            .collect();
        format!("rules [{}] world [{}] target {}", rules.join("; "), ents.join(" "), if self.prefilled { "pre-filled with Nr" } else { "empty" })
    }
}

fn build(case: &Case) -> (App, Vec<Entity>) {
    let mut app = App::new();
    app.init_resource::<Time>().add_plugins(RepliconPlugins);
    app.register_type::<Ra>().register_type::<Rb>().register_type::<Nr>().register_type::<Nc>();
    if case.rules & 1 != 0 {
        app.replicate::<Ra>();
    }
    if case.rules & 2 != 0 {
        app.replicate::<Rb>();
    }
    if case.rules & 4 != 0 {
        app.replicate_bundle::<(Ra, Rb)>();
    }
    if case.rules & 8 != 0 {
        app.replicate_with_priority(5, RuleFns::<Ra>::default());
    }
    if case.rules & 16 != 0 {
        app.replicate::<Un>();
    }
    if case.rules & 32 != 0 {
        app.replicate_bundle::<(Ra, Un)>();
    }
    if case.rules & 64 != 0 {
        app.replicate_bundle::<(Ra, Nc, Rb)>();
    }
    if case.rules & 128 != 0 {
        app.replicate_bundle::<(Rb, Ra)>();
    }
    app.finish();
    app.cleanup();
    let mut ids = Vec::new();
    for (i, e) in case.ents.iter().enumerate() {
        let v = 10 * (i as u8 + 1);
        let mut em = app.world_mut().spawn_empty();
        if e.marked {
            em.insert(Replicated);
        }
        if e.comps & CA != 0 {
            em.insert(Ra(v + 1));
        }
        if e.comps & CB != 0 {
            em.insert(Rb(v + 2));
        }
        if e.comps & CU != 0 {
            em.insert(Un(v + 3));
        }
        if e.comps & CN != 0 {
            em.insert(Nr(v + 4));
        }
        if e.comps & CC != 0 {
            em.insert(Nc(v + 5));
        }
        ids.push(em.id());
    }
    (app, ids)
}

/// The harness's own computation of what the rules select: (entity index) -> component bits.
fn expected(case: &Case) -> BTreeMap<usize, u8> {
    let mut rules: Vec<u8> = Vec::new(); // component sets of the registered rules
    if case.rules & 1 != 0 {
        rules.push(CA);
    }
    if case.rules & 2 != 0 {
        rules.push(CB);
    }
    if case.rules & 4 != 0 {
        rules.push(CA | CB);
    }
    if case.rules & 8 != 0 {
        rules.push(CA);
    }
    if case.rules & 16 != 0 {
        rules.push(CU);
    }
    if case.rules & 32 != 0 {
        rules.push(CA | CU);
    }
    if case.rules & 64 != 0 {
        rules.push(CA | CC | CB);
    }
    if case.rules & 128 != 0 {
        rules.push(CB | CA);
    }
    let mut out = BTreeMap::new();
    for (i, e) in case.ents.iter().enumerate() {
        if !e.marked {
            continue;
        }
        let mut sel = 0u8;
        for r in &rules {
            if e.comps & r == *r {
                sel |= r;
            }
        }
        // only reflected *and registered* components can be exported
        out.insert(i, sel & (CA | CB));
    }
    out
}

fn check_case(case: &Case) -> Result<u64, (String, String)> {
    let (app, ids) = build(case);
    let mut scene = DynamicScene::default();
    if case.prefilled {
        // the target scene already holds the marked entities with a component no rule selects
        let marked: Vec<Entity> = ids.iter().zip(&case.ents).filter(|(_, e)| e.marked).map(|(id, _)| *id).collect();
        scene = DynamicSceneBuilder::from_world(app.world())
            .deny_all_components()
            .allow_component::<Nr>()
            .extract_entities(marked.into_iter())
            .build();
    }
    let pre: BTreeMap<Entity, usize> = scene.entities.iter().map(|e| (e.entity, e.components.len())).collect();
    if let Err((msg, loc)) = guarded(|| scene::replicate_into(&mut scene, app.world())) {
        return Err(("panic".into(), format!("replicate_into panicked: {msg} ({})", crate::sim::short_loc(&loc))));
    }
    let want = expected(case);
    // exactly one scene entity per marked entity
    let mut seen: BTreeSet<Entity> = BTreeSet::new();
    for de in &scene.entities {
        if !seen.insert(de.entity) {
            return Err(("duplicate-entity".into(), format!("scene holds entity {} twice", de.entity)));
        }
    }
    let want_ids: BTreeSet<Entity> = want.keys().map(|i| ids[*i]).collect();
    if seen != want_ids {
        return Err((
            "entity-set".into(),
            format!("scene entities {:?} differ from the entities marked for replication {:?}", seen, want_ids),
        ));
    }
    let mut digest = 0u64;
    for de in &scene.entities {
        let i = ids.iter().position(|id| *id == de.entity).unwrap();
        let v = 10 * (i as u8 + 1);
        let mut counts: BTreeMap<&'static str, u32> = BTreeMap::new();
        for c in &de.components {
            let name: &'static str = if let Some(x) = c.try_downcast_ref::<Ra>() {
                if x.0 != v + 1 {
                    return Err(("stale-value".into(), format!("Ra exported with value {} instead of {}", x.0, v + 1)));
                }
                "Ra"
            } else if let Some(x) = c.try_downcast_ref::<Rb>() {
                if x.0 != v + 2 {
                    return Err(("stale-value".into(), format!("Rb exported with value {} instead of {}", x.0, v + 2)));
                }
                "Rb"
            } else if c.try_downcast_ref::<Nr>().is_some() {
                "Nr"
            } else if c.try_downcast_ref::<Un>().is_some() {
                "Un"
            } else if c.try_downcast_ref::<Nc>().is_some() {
                "Nc"
            } else if c.try_downcast_ref::<Replicated>().is_some() {
                "Replicated"
            } else {
                "other"
            };
            *counts.entry(name).or_default() += 1;
        }
        let sel = want[&i];
        for (bit, name) in [(CA, "Ra"), (CB, "Rb")] {
            let n = counts.get(name).copied().unwrap_or(0);
            let w = if sel & bit != 0 { 1 } else { 0 };
            if n != w {
                return Err((
                    if n > w { "component-twice".into() } else { "component-missing".into() },
                    format!("entity #{i}: component {name} exported {n} time(s), the rules select it {w} time(s)"),
                ));
            }
        }
        for name in ["Replicated", "Un", "Nc", "other"] {
            if counts.get(name).copied().unwrap_or(0) != 0 {
                return Err(("unreplicated-component".into(), format!("entity #{i}: {name} must not be exported")));
            }
        }
        let nr = counts.get("Nr").copied().unwrap_or(0);
        let want_nr = if case.prefilled && case.ents[i].comps & CN != 0 { 1 } else { 0 };
        if nr != want_nr {
            return Err(("prefilled".into(), format!("entity #{i}: pre-filled component Nr appears {nr} time(s), expected {want_nr}")));
        }
        let _ = pre;
        digest = digest.wrapping_mul(31).wrapping_add(sel as u64 + 17 * nr as u64);
    }
    // serialize -> read back
    let registry = app.world().resource::<AppTypeRegistry>().read();
    let text = match scene.serialize(&registry) {
        Ok(t) => t,
        Err(e) => return Err(("serialize".into(), format!("scene does not serialize: {e}"))),
    };
    let mut de = match ron::de::Deserializer::from_str(&text) {
        Ok(d) => d,
        Err(e) => return Err(("deserialize".into(), format!("serialized scene is not RON: {e}"))),
    };
    let back = SceneDeserializer { type_registry: &registry }.deserialize(&mut de);
    match back {
        Ok(s) => {
            if s.entities.len() != scene.entities.len() {
                return Err(("deserialize".into(), "read-back scene has a different number of entities".into()));
            }
        }
        Err(e) => return Err(("deserialize".into(), format!("serialized scene cannot be read back: {e}"))),
    }
    Ok(digest)
}

fn cases(tier: Tier) -> Vec<Case> {
    let mut kinds: Vec<Ent> = Vec::new();
    for marked in [true, false] {
        for comps in 0..32u8 {
            kinds.push(Ent { marked, comps });
        }
    }
    let mut worlds: Vec<Vec<Ent>> = kinds.iter().map(|k| vec![*k]).collect();
    let second: Vec<Ent> = if tier.quick() {
        // second entity: a few representative shapes
        vec![Ent { marked: true, comps: 0 }, Ent { marked: true, comps: CA | CB }, Ent { marked: false, comps: CA }, Ent { marked: true, comps: CA | CU | CN }]
    } else {
        kinds.clone()
    };
    for a in &kinds {
        for b in &second {
            worlds.push(vec![*a, *b]);
        }
    }
    let mut out = Vec::new();
    for rules in 0..256u16 {
        for w in &worlds {
            for prefilled in [false, true] {
                out.push(Case { rules, ents: w.clone(), prefilled });
            }
        }
    }
    out
}

/// A second vocabulary: a component with the same short type name in another module (replicated,
/// with sparse-set storage), an
/// unreplicated sparse-set component (archetypes that differ only by it share a table) and
/// disabled entities. Rules: `Ra` and `other::Ra`. Worlds: two entities, every subset of
/// {Ra, other::Ra, sparse, Disabled} and the marker on each.
mod other {
    use super::*;
    #[derive(Component, Default, Deserialize, Reflect, Serialize, Clone, PartialEq, Debug)]
    #[reflect(Component)]
    #[component(storage = "SparseSet")]
    pub struct Ra(pub u8);
}
#[derive(Component, Default)]
#[component(storage = "SparseSet")]
struct Sparse;

fn check_extra(e0: u8, e1: u8) -> Result<u64, (String, String)> {
    use bevy::ecs::entity_disabling::Disabled;
    let mut app = App::new();
    app.init_resource::<Time>().add_plugins(RepliconPlugins);
    app.register_type::<Ra>().register_type::<other::Ra>();
    app.replicate::<Ra>().replicate::<other::Ra>();
    app.finish();
    app.cleanup();
    let mut ids = Vec::new();
    for (i, bits) in [e0, e1].into_iter().enumerate() {
        let v = 10 * (i as u8 + 1);
        let mut em = app.world_mut().spawn_empty();
        if bits & 1 != 0 {
            em.insert(Replicated);
        }
        if bits & 2 != 0 {
            em.insert(Ra(v + 1));
        }
        if bits & 4 != 0 {
            em.insert(other::Ra(v + 6));
        }
        if bits & 8 != 0 {
            em.insert(Sparse);
        }
        if bits & 16 != 0 {
            em.insert(Disabled);
        }
        ids.push(em.id());
    }
    let mut scene = DynamicScene::default();
    if let Err((msg, loc)) = guarded(|| scene::replicate_into(&mut scene, app.world())) {
        return Err(("panic".into(), format!("replicate_into panicked: {msg} ({})", crate::sim::short_loc(&loc))));
    }
    let mut digest = 0u64;
    for (i, bits) in [e0, e1].into_iter().enumerate() {
        let found: Vec<_> = scene.entities.iter().filter(|d| d.entity == ids[i]).collect();
        let want_entity = bits & 1 != 0;
        if found.len() != want_entity as usize {
            return Err(("entity-set".into(), format!("entity #{i} (marked: {want_entity}, disabled: {}) appears {} time(s) in the scene", bits & 16 != 0, found.len())));
        }
        let Some(d) = found.first() else { continue };
        let v = 10 * (i as u8 + 1);
        let ra = d.components.iter().filter(|c| c.try_downcast_ref::<Ra>().is_some_and(|x| x.0 == v + 1)).count();
        let ora = d.components.iter().filter(|c| c.try_downcast_ref::<other::Ra>().is_some_and(|x| x.0 == v + 6)).count();
        if ra != (bits & 2 != 0) as usize || ora != (bits & 4 != 0) as usize {
            return Err((
                if ra > 1 || ora > 1 { "component-twice".into() } else { "component-missing".into() },
                format!("entity #{i}: Ra exported {ra} time(s) (has it: {}), other::Ra exported {ora} time(s) (has it: {})", bits & 2 != 0, bits & 4 != 0),
            ));
        }
        if d.components.len() != ra + ora {
            return Err(("unreplicated-component".into(), format!("entity #{i}: {} components exported, {} selected", d.components.len(), ra + ora)));
        }
        digest = digest * 31 + (ra * 2 + ora * 3 + 1) as u64;
    }
    Ok(digest)
}

pub fn run(tier: Tier, _budget: f64, out: &mut Outcome) -> Result<(), MachineryError> {
    out.rule = RULE.into();
    // the second vocabulary
    let extra: Vec<((u8, u8), Result<u64, (String, String)>)> =
        (0u16..1024).into_par_iter().map(|k| ((k as u8 & 31, (k >> 5) as u8), check_extra(k as u8 & 31, (k >> 5) as u8))).collect();
    out.evaluations += extra.len() as u64;
    out.transitions += extra.len() as u64;
    out.nontrivial += extra.iter().filter(|((a, b), _)| (a & 1 != 0 && a & 6 != 0) || (b & 1 != 0 && b & 6 != 0)).count() as u64;
    if let Some(((a, b), Err((oracle, detail)))) = extra.iter().find(|(_, r)| r.is_err()) {
        out.violation_total += extra.iter().filter(|(_, r)| r.is_err()).count() as u64;
        let dir = std::path::Path::new(&check::verif_root()).join("replays").join("C18");
        let _ = std::fs::create_dir_all(&dir);
        let path = dir.join(format!("{:016x}.json", crate::explore::hash_of(&("extra", oracle, a, b))));
        let doc = json!({"property": "C18", "kind": "scene", "extra": [a, b],
            "shown": format!("entities with bit sets {a:#07b} / {b:#07b} over [marker, Ra, other::Ra, sparse, Disabled]"),
            "violation": {"property": "C18", "oracle": oracle, "detail": detail}});
        std::fs::write(&path, serde_json::to_string_pretty(&doc).unwrap()).unwrap();
        out.new_violations.push(path);
    }
    out.reports.push(json!({"cell": "c18-second-vocabulary", "cases": extra.len(), "exhaustive_within_bound": true}));
    let all = cases(tier);
    let results: Vec<(usize, Result<u64, (String, String)>)> =
        all.par_iter().enumerate().map(|(i, c)| (i, check_case(c))).collect();
    let mut outcomes = BTreeSet::new();
    let mut bad: Vec<(usize, String, String)> = Vec::new();
    let mut nontrivial = 0u64;
    for (i, r) in results {
        match r {
            Ok(d) => {
                outcomes.insert(d);
                if all[i].ents.iter().any(|e| e.marked && e.comps & (CA | CB) != 0) && all[i].rules != 0 {
                    nontrivial += 1;
                }
            }
            Err((o, d)) => bad.push((i, o, d)),
        }
    }
    out.evaluations += all.len() as u64;
    out.nontrivial += nontrivial;
    out.states += outcomes.len() as u64;
    out.distinct_outcomes += outcomes.len() as u64;
    out.distinct_nontrivial += outcomes.len() as u64;
    out.transitions += all.len() as u64;
    out.samples.push(json!(all[all.len() / 3].show()));
    out.samples.push(json!(all[all.len() / 2 + 7].show()));
    out.reports.push(json!({"cases": all.len(), "rule_sets": 256, "distinct_exports": outcomes.len(), "exhaustive_within_bound": true}));
    eprintln!("  C18: {} cases, {} non-trivial, {} distinct exports, {} failing", all.len(), nontrivial, outcomes.len(), bad.len());
    out.violation_total += bad.len() as u64;

    let findings = check::load_findings();
    // the smallest case of each failing oracle
    bad.sort_by_key(|(i, _, _)| (all[*i].ents.len(), all[*i].rules.count_ones(), all[*i].ents.iter().map(|e| e.comps.count_ones()).sum::<u32>(), *i));
    let mut seen = BTreeSet::new();
    for (i, oracle, detail) in &bad {
        if !seen.insert(oracle.clone()) {
            continue;
        }
        let feats: BTreeSet<String> = BTreeSet::new();
        if let Some(k) = findings.findings.iter().find(|f| check::matches_known(f, "C18", oracle, &feats)) {
            out.known_hits.push(format!("KNOWN-FINDING: property=C18 {}", k.what));
            continue;
        }
        let dir = std::path::Path::new(&check::verif_root()).join("replays").join("C18");
        let _ = std::fs::create_dir_all(&dir);
        let path = dir.join(format!("{:016x}.json", crate::explore::hash_of(&(oracle, i))));
        let c = &all[*i];
        let doc = json!({"property": "C18", "kind": "scene", "case": {"rules": c.rules, "ents": c.ents.iter().map(|e| json!({"marked": e.marked, "comps": e.comps})).collect::<Vec<_>>(), "prefilled": c.prefilled},
            "shown": c.show(), "violation": {"property": "C18", "oracle": oracle, "detail": detail}});
        std::fs::write(&path, serde_json::to_string_pretty(&doc).unwrap()).unwrap();
        out.new_violations.push(path);
    }
    Ok(())
}

pub fn replay(doc: &serde_json::Value) -> i32 {
    if let Some(x) = doc["extra"].as_array() {
        let (a, b) = (x[0].as_u64().unwrap() as u8, x[1].as_u64().unwrap() as u8);
        println!("{}", doc["shown"].as_str().unwrap_or(""));
        return match check_extra(a, b) {
            Ok(_) => {
                println!("replay passes: no violation");
                0
            }
            Err((o, d)) => {
                println!("VIOLATION property=C18 replay=<file> oracle={o} :: {d}");
                1
            }
        };
    }
    let c = &doc["case"];
    let case = Case {
        rules: c["rules"].as_u64().unwrap() as u16,
        ents: c["ents"].as_array().unwrap().iter().map(|e| Ent { marked: e["marked"].as_bool().unwrap(), comps: e["comps"].as_u64().unwrap() as u8 }).collect(),
        prefilled: c["prefilled"].as_bool().unwrap(),
    };
    println!("{}", case.show());
    match check_case(&case) {
        Ok(_) => {
            println!("replay passes: no violation");
            0
        }
        Err((o, d)) => {
            println!("VIOLATION property=C18 replay=<file> oracle={o} :: {d}");
            1
        }
    }
}

pub const RULE: &str = "every world of 1-2 entities over {marker} x all subsets of {Ra, Rb reflected+registered, Un reflected but unregistered, Nr without rule} x every subset of six rules (single, bundle, overlapping, custom priority, rules naming the unregistered type) x target scene empty / pre-filled; reference = the harness's own rule matching; per case: one scene entity per marked entity, each selected component exactly once with its current value, no marker, nothing unreplicated, pre-filled entities extended, serialize and read back; non-trivial = a rule selects a component of a marked entity";
