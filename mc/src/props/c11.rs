//! C11: acknowledged data is not re-sent and an idle server is silent.
use std::collections::BTreeSet;

use crate::{
    cells,
    check::{CellPlan, Tier, plan},
    explore::Violation,
    repl::{Env, MutMenu, Oracles, ReplCell, ReplExec},
    sim::*,
};

/// After a tick frame: for every continuously replicated component of every live replicated
/// entity, `edited after the newest acknowledged message containing the entity` must coincide
/// with `current value is in this tick's traffic to that client`.
pub fn check_tick(cell: &ReplCell, x: &mut ReplExec) -> Result<(), Violation> {
    if !x.sim.last_frame_was_tick || x.sim.acks.format_unknown {
        return Ok(());
    }
    let v = |oracle: &str, detail: String| Violation::new(cell.property, oracle, detail);
    let frame = x.sim.server_frames;
    let tick = x.sim.last_tick;
    for c in 0..cell.clients() {
        if !x.sim.is_authorized(c) {
            continue;
        }
        let sent: BTreeSet<(u8, u8, u8)> = x
            .sim
            .wire
            .iter()
            .rev()
            .take_while(|w| w.server_frame == frame)
            .filter(|w| w.client == c && w.channel <= 1)
            .flat_map(|w| payloads_in(&w.bytes))
            .collect();
        for slot in 0..x.sim.ents.len() as u8 {
            if !x.sim.marked(slot) {
                continue;
            }
            let e = x.sim.alive(slot).unwrap();
            if !x.sim.visible_now(c, e.to_bits()) {
                continue;
            }
            let etag = slot + 1;
            for ctag in [TA, TB, TBIG] {
                let Some(&(ver, Some(edit_tick))) = x.sim.last_edit.get(&(etag, ctag)) else { continue };
                // the component may have been removed since
                let snap = &x.sim.snaps[&tick];
                if !snap.get(&e.to_bits()).is_some_and(|cs| cs.contains_key(&ctag)) {
                    continue;
                }
                let acked = x.sim.acks.acked_tick.get(&(c, etag)).copied().unwrap_or(0);
                let baseline = x.c11_baseline.get(&(c, etag)).copied().unwrap_or(0);
                let acked = acked.max(baseline);
                let must = edit_tick > acked;
                let present = sent.contains(&(etag, ctag, ver));
                if must && !present {
                    return Err(v(
                        "pending-mutation-not-sent",
                        format!(
                            "tick {tick}: {} of e{etag} was edited at tick {edit_tick}, the newest acknowledged message to c{c} containing e{etag} is of tick {acked}, but the value (v{ver}) is not in this tick's traffic",
                            ctag_name(ctag)
                        ),
                    )
                    .feat(format!("comp:{}", ctag_name(ctag))));
                }
                // (a value carried by this tick's own update message is not a re-send)
                if !must && present && cell.oracles.c11_no_resend && acked != tick {
                    return Err(v(
                        "acknowledged-data-resent",
                        format!(
                            "tick {tick}: {} of e{etag} (v{ver}, edited at tick {edit_tick}) was sent to c{c} again although a message of tick {acked} containing e{etag} had been acknowledged",
                            ctag_name(ctag)
                        ),
                    )
                    .feat(format!("comp:{}", ctag_name(ctag))));
                }
            }
        }
    }
    Ok(())
}

/// After closure everything is delivered and acknowledged: N further ticks must be silent
/// (with tracking: exactly one payload-free mutate message per tick), and the next change must be sent.
pub fn quiescence(cell: &ReplCell, x: &mut ReplExec) -> Result<(), Violation> {
    let v = |oracle: &str, detail: String| Violation::new(cell.property, oracle, detail);
    for _ in 0..3 {
        let before = x.sim.wire.len();
        cell.lockstep_round(x, true)?;
        for c in 0..cell.clients() {
            let msgs: Vec<&WireRec> = x.sim.wire[before..]
                .iter()
                .filter(|w| w.client == c && w.channel <= 1)
                .collect();
            if cell.cfg.track {
                let ok = msgs.len() == 1 && msgs[0].channel == 1 && payloads_in(&msgs[0].bytes).is_empty();
                if !ok {
                    return Err(v(
                        "traffic-at-rest",
                        format!(
                            "at rest with tracking enabled tick {} produced {} replication message(s) for c{c} ({:?} bytes); expected exactly one empty mutate message",
                            x.sim.last_tick,
                            msgs.len(),
                            msgs.iter().map(|m| m.bytes.len()).collect::<Vec<_>>()
                        ),
                    ));
                }
            } else if !msgs.is_empty() {
                return Err(v(
                    "traffic-at-rest",
                    format!(
                        "nothing changed and everything is acknowledged, but tick {} produced {} replication message(s) for c{c} (channels {:?}, {:?} bytes)",
                        x.sim.last_tick,
                        msgs.len(),
                        msgs.iter().map(|m| m.channel).collect::<Vec<_>>(),
                        msgs.iter().map(|m| m.bytes.len()).collect::<Vec<_>>()
                    ),
                )
                .feat(format!("channel:{}", msgs[0].channel)));
            }
        }
    }
    // resumes with the next change
    for slot in 0..x.sim.ents.len() as u8 {
        let op = Op::Mut(slot, TA);
        if x.sim.marked(slot) && x.sim.enabled(op) {
            x.sim.apply_op(op);
            let before = x.sim.wire.len();
            cell.lockstep_round(x, true)?;
            let ver = x.sim.ver;
            for c in 0..cell.clients() {
                if !x.sim.is_authorized(c) || !x.sim.visible_now(c, x.sim.alive(slot).unwrap().to_bits()) {
                    continue;
                }
                let present = x.sim.wire[before..]
                    .iter()
                    .filter(|w| w.client == c && w.channel <= 1)
                    .any(|w| payloads_in(&w.bytes).contains(&(slot + 1, TA, ver)));
                if !present {
                    return Err(v(
                        "change-after-rest-not-sent",
                        format!("after a period of rest, a mutation of A on e{} was not sent to c{c} on the next tick", slot + 1),
                    ));
                }
            }
            break;
        }
    }
    Ok(())
}

fn mutation_cell(name: &str) -> ReplCell {
    let mut c = cells::base(name, "C11");
    c.init = vec![Op::Spawn(0, cells::AB), Op::Spawn(1, cells::M_A)];
    c.alphabet = vec![Op::Nop, Op::Mut(0, TA), Op::Mut(0, TB), Op::Mut(1, TA)];
    c.env = Env { hold_acks: true, hold_updates: 0, mutations: MutMenu::Full, leftover_choice: true, lossy: false };
    c.oracles = Oracles { c11: true, c11_no_resend: true, c01: true, ..Default::default() };
    c
}

pub fn cells(tier: Tier) -> Vec<CellPlan> {
    let q = tier.quick();
    let mut v = Vec::new();

    let mut c = mutation_cell("acks");
    c.rounds = if q { 3 } else { 4 };
    c.junk_acks = true;
    v.push(plan(c, if q { 2 } else { 3 }, 3.0));

    // two clients with independent ack progress and a small message size (several messages per tick)
    let mut c = mutation_cell("acks-2c");
    c.cfg.clients = vec![1200, 40];
    c.rounds = 3;
    v.push(plan(c, if q { 1 } else { 2 }, 2.0));

    // synchronized relationship registered: rest must still be silent
    let mut c = mutation_cell("sync");
    c.cfg.with_child = true;
    c.cfg.sync_rel = true;
    c.init = vec![Op::Spawn(0, cells::AB), Op::Spawn(1, cells::M_A), Op::SetParent(1, 0)];
    c.rounds = 3;
    v.push(plan(c, if q { 1 } else { 2 }, 2.0));

    // tracking of mutate messages requested: one empty message per tick at rest
    let mut c = mutation_cell("track");
    c.cfg.track = true;
    c.rounds = 3;
    v.push(plan(c, if q { 1 } else { 2 }, 1.0));

    // every entity in its own message, lossy link: acknowledgement bookkeeping per message
    let mut c = cells::split_lossy("C11");
    c.oracles = Oracles { c11: true, c11_no_resend: true, c01: true, ..Default::default() };
    c.rounds = 3;
    v.push(plan(c, if q { 2 } else { 3 }, 3.0));

    // two disjoint hierarchies: a mutation in one of them must still be sent
    let mut c = mutation_cell("sync-2groups");
    c.cfg.with_child = true;
    c.cfg.sync_rel = true;
    c.init = vec![
        Op::Spawn(0, cells::M_A),
        Op::Spawn(1, cells::M_A),
        Op::Spawn(2, cells::M_A),
        Op::Spawn(3, cells::M_A),
        Op::SetParent(1, 0),
        Op::SetParent(3, 2),
    ];
    c.alphabet = vec![Op::Nop, Op::Mut(0, TA), Op::Mut(1, TA), Op::Mut(3, TA)];
    c.rounds = 3;
    v.push(plan(c, if q { 1 } else { 2 }, 2.0));

    // a late mutate message that names an entity the client has already despawned, followed by
    // another entity; the re-sent copies are lost (one cell per payload length of the despawned
    // entity's record: what a reader that lost its place makes of the rest depends on the bytes)
    for len in [5u16, 6, 7, 8, 9, 13, 17, 33] {
        let mut c = mutation_cell(&format!("late-despawned-{len}"));
        c.cfg.with_big = true;
        // (archetype order = order in the message: e1 first, e2 last)
        c.init = vec![Op::Spawn(0, cells::M_A), Op::InsBig(0, len), Op::Spawn(1, cells::M_B)];
        c.alphabet = vec![Op::Nop, Op::MutBig(0, len), Op::Mut(0, TA), Op::Mut(1, TB), Op::Despawn(0)];
        c.ops_per_round = 2;
        c.rounds = 2;
        c.tick_choice = false;
        c.env = Env { hold_acks: true, hold_updates: 0, mutations: MutMenu::Full, leftover_choice: true, lossy: false };
        v.push(plan(c, 2, 0.5));
    }

    // a removal and a mutation on one entity in one tick (the mutation travels in the update
    // message): afterwards the server is as quiet as after any acknowledged mutation
    let mut c = cells::three_comps("C11", 1);
    c.oracles = Oracles { c11: true, c11_no_resend: true, c01: true, ..Default::default() };
    v.push(plan(c, 1, 1.0));

    // a mutate message whose application fails on the client (the game's deserialization
    // function refuses a value) is still a received message: it is acknowledged and the server
    // goes quiet. One operation per tick on a perfect link, so that no other entity shares the
    // refused message; only the rest oracle applies.
    let mut c = mutation_cell("refused-mutation");
    c.cfg.with_f = true;
    c.init = vec![Op::Spawn(0, cells::M_A), Op::Spawn(1, cells::M_A), Op::InsF(0)];
    c.alphabet = vec![Op::Nop, Op::MutPoison(0), Op::Mut(1, TA), Op::Mut(0, TA)];
    c.tick_choice = false;
    c.env = Env::perfect();
    c.oracles = Oracles { c11: true, ..Default::default() };
    c.rounds = if q { 3 } else { 4 };
    v.push(plan(c, 0, 0.5));

    // acknowledgement timeout shorter than the round trip: only "never skipped" is asserted
    let mut c = mutation_cell("timeout");
    c.cfg.timeout_ms = 20;
    c.cfg.dt_ms = 15;
    c.oracles.c11_no_resend = false;
    c.rounds = if q { 3 } else { 4 };
    c.junk_acks = true;
    v.push(plan(c, if q { 2 } else { 3 }, 2.0));

    // ... with one acknowledgement arriving two rounds late for a single deviation: by then its
    // message has timed out, and whatever the server does with message indices afterwards, the
    // late acknowledgement must not be taken for that of a newer message
    let mut c = mutation_cell("timeout-straggler");
    c.cfg.timeout_ms = 20;
    c.cfg.dt_ms = 15;
    c.oracles.c11_no_resend = false;
    c.init = vec![Op::Spawn(0, cells::M_A)];
    c.alphabet = vec![Op::Nop, Op::Mut(0, TA)];
    c.tick_choice = false;
    c.straggler_acks = true;
    c.rounds = 5;
    v.push(plan(c, 2, 2.0));

    // acknowledgement timeout longer than any delay the bound allows (an acknowledgement is at
    // most (1 + d) frames of 10 ms old), but short enough for the periodic clean-up to run several
    // times inside the explored window: a late acknowledgement that is within the timeout
    // still ends the re-sending
    // (the clean-up runs every `timeout`; with five rounds a period of three or four frames puts
    // one of its runs between the sending of a message and the late arrival of its
    // acknowledgement, whatever the phase)
    // (third cell: the virtual clock was paused for longer than the timeout earlier on, so the
    // real clock is ahead of the one the timestamps come from)
    for (name, timeout, d, paused) in [("timeout-30", 30, 2, 0), ("timeout-40", 40, if q { 2 } else { 3 }, 0), ("timeout-30-paused", 30, 2, 5)] {
        let mut c = mutation_cell(name);
        c.cfg.timeout_ms = timeout;
        c.cfg.paused_frames = paused;
        c.cfg.dt_ms = 10;
        c.init = vec![Op::Spawn(0, cells::M_A)];
        c.alphabet = vec![Op::Nop, Op::Mut(0, TA)];
        c.tick_choice = false;
        c.rounds = 5;
        v.push(plan(c, d, 2.0));
    }
    v
}

pub const RULE: &str = "mutation-only histories on settled entities (with / without a synchronized relationship, with / without tracking, 1-2 clients with different maximum message sizes) x every hold / drop / reorder pattern of mutate messages and acknowledgements with <= d deviations, junk acknowledgement indices injected at any step, acknowledgement timeout shorter than the delay (never-skipped only) and longer than any delay within the bound with the periodic clean-up running inside the window, one acknowledgement arriving two rounds late for a single deviation; per tick the wire is scanned: value in traffic iff edited after the newest acknowledged message containing the entity; after closure three silent ticks and resumption; non-trivial = at least one mutate message delivered";
