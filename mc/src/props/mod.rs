pub mod c01;
pub mod c02;
pub mod c03;
pub mod c04;
pub mod c05;
pub mod c06;
pub mod c07;
pub mod c08;
pub mod c09;
pub mod c10;
pub mod c11;
pub mod c12;
pub mod c13;
pub mod c14;
pub mod c15;
pub mod c16;
pub mod c17;
pub mod c18;

use crate::{
    check::{CellPlan, Outcome, Tier, run_cells},
    explore::MachineryError,
};

/// Cells of a cell-based property.
pub fn cells_of(prop: &str, tier: Tier) -> Option<(Vec<CellPlan>, &'static str)> {
    Some(match prop {
        "C01" => (c01::cells(tier), c01::RULE),
        "C02" => (c02::cells(tier), c02::RULE),
        "C03" => (c03::cells(tier), c03::RULE),
        "C04" => (c04::cells(tier), c04::RULE),
        "C05" => (c05::cells(tier), c05::RULE),
        "C07" => (c07::cells(tier), c07::RULE),
        "C08" => (c08::cells(tier), c08::RULE),
        "C09" => (c09::cells(tier), c09::RULE),
        "C10" => (c10::cells(tier), c10::RULE),
        "C11" => (c11::cells(tier), c11::RULE),
        "C12" => (c12::end_to_end_cells(tier), c12::RULE),
        "C13" => (c13::cells(tier), c13::RULE),
        "C16" => (c16::cells(tier), c16::RULE),
        _ => return None,
    })
}

pub fn run(prop: &str, tier: Tier, budget: f64, out: &mut Outcome) -> Result<(), MachineryError> {
    out.assumptions = vec![
        "single-threaded Bevy executor, fixed system order (asserted by the build: no multi_threaded feature)".into(),
        "channel contracts of channels.rs: no duplication or corruption; reliable-ordered FIFO; unreliable may drop/reorder/delay".into(),
        "bounds: small entity/client pools, rounds and deviations as listed per cell".into(),
    ];
    if prop == "C12" {
        return c12::run(tier, budget, out);
    }
    if prop == "C06" {
        return c06::run(tier, budget, out);
    }
    if prop == "C14" {
        return c14::run(tier, budget, out);
    }
    if prop == "C17" {
        return c17::run(tier, budget, out);
    }
    if prop == "C18" {
        return c18::run(tier, budget, out);
    }
    if prop == "C15" {
        return c15::run(tier, budget, out);
    }
    if let Some((plans, rule)) = cells_of(prop, tier) {
        out.rule = rule.into();
        regression_replays(prop, out)?;
        run_cells(out, plans, budget, 12)?;
        if prop == "C13" {
            c13::backend::part(tier, out)?;
        }
        if prop == "C09" {
            c17::c09_sessions_part(out)?;
        }
        return Ok(());
    }
    Err(MachineryError(format!("unknown property {prop}")))
}

/// Replays the committed regression traces of a property (minimal traces of defects that were
/// found and repaired). A trace that fails again is a violation; one whose recorded choices are
/// no longer offered by its cell is counted as stale.
pub fn regression_replays(prop: &str, out: &mut Outcome) -> Result<(), MachineryError> {
    let dir = std::path::Path::new(&crate::check::verif_root()).join("regress").join(prop);
    let Ok(rd) = std::fs::read_dir(&dir) else { return Ok(()) };
    let mut files: Vec<_> = rd.filter_map(|e| e.ok()).map(|e| e.path()).filter(|p| p.extension().is_some_and(|e| e == "json")).collect();
    files.sort();
    let findings = crate::check::load_findings();
    let mut stale = 0u64;
    for f in files {
        let Ok(text) = std::fs::read_to_string(&f) else { continue };
        let Ok(doc) = serde_json::from_str::<serde_json::Value>(&text) else { continue };
        if doc["kind"].is_string() {
            // input-enumeration checks re-enumerate their (small) input sets anyway
            continue;
        }
        let cell_name = doc["cell"].as_str().unwrap_or("");
        let labels: Vec<String> = doc["choice_labels"].as_array().map(|a| a.iter().filter_map(|v| v.as_str().map(String::from)).collect()).unwrap_or_default();
        let mut done = false;
        for tier in [Tier::Quick, Tier::Thorough] {
            let Some((plans, _)) = cells_of(prop, tier) else { break };
            for p in plans {
                if p.cell.cell_name() != cell_name || done {
                    continue;
                }
                done = true;
                match p.cell.replay_labels_dyn(&labels) {
                    None => stale += 1,
                    Some(run) => {
                        out.regressions_replayed += 1;
                        out.transitions += run.summary.transitions;
                        if let Some(v) = &run.violation {
                            let feats = crate::check::all_features(&p.cell.cell_name(), &run);
                            if let Some(k) = findings.findings.iter().find(|k| crate::check::matches_known(k, &v.property, &v.oracle, &feats)) {
                                let line = format!("KNOWN-FINDING: property={} {}", v.property, k.what);
                                if !out.known_hits.contains(&line) {
                                    out.known_hits.push(line);
                                }
                            } else {
                                eprintln!("regression trace {} fails again: {} {}", f.display(), v.oracle, v.detail);
                                out.new_violations.push(f.clone());
                            }
                        }
                    }
                }
            }
            if done {
                break;
            }
        }
        if !done {
            stale += 1;
        }
    }
    out.extra.insert("stale_regression_traces".into(), serde_json::json!(stale));
    Ok(())
}

pub fn replay(path: &str) -> i32 {
    let text = match std::fs::read_to_string(path) {
        Ok(t) => t,
        Err(e) => {
            eprintln!("cannot read {path}: {e}");
            return 2;
        }
    };
    let doc: serde_json::Value = serde_json::from_str(&text).expect("replay file is JSON");
    let prop = doc["property"].as_str().unwrap();
    match doc["kind"].as_str() {
        Some("struct") => return c12::replay_struct(&doc),
        Some("bytes") => return c06::replay(&doc),
        Some("codec") => return c15::replay(&doc),
        Some("scene") => return c18::replay(&doc),
        Some("conditioner") | Some("loopback") => return c17::replay(&doc),
        Some("protocol") => return c14::replay(&doc),
        Some("c13-backend") => return c13::backend::replay(&doc),
        _ => {}
    }
    let cell_name = doc["cell"].as_str().unwrap();
    let choices: Vec<u16> = doc["choices"].as_array().unwrap().iter().map(|v| v.as_u64().unwrap() as u16).collect();
    let labels: Vec<String> = doc["choice_labels"].as_array().map(|a| a.iter().filter_map(|v| v.as_str().map(String::from)).collect()).unwrap_or_default();
    // a cell of one name may be configured differently in the two tiers (more rounds): the tier
    // whose configuration is the recorded one is replayed, the quick one if neither matches
    let recorded = &doc["cell_config"];
    let tiers = if !recorded.is_null()
        && cells_of(prop, Tier::Thorough).is_some_and(|(plans, _)| plans.iter().any(|p| p.cell.cell_name() == cell_name && &p.cell.cell_cfg() == recorded))
        && !cells_of(prop, Tier::Quick).is_some_and(|(plans, _)| plans.iter().any(|p| p.cell.cell_name() == cell_name && &p.cell.cell_cfg() == recorded))
    {
        [Tier::Thorough, Tier::Quick]
    } else {
        [Tier::Quick, Tier::Thorough]
    };
    for tier in tiers {
        let Some((plans, _)) = cells_of(prop, tier) else { break };
        for p in plans {
            if p.cell.cell_name() == cell_name {
                // choose by recorded labels where possible (robust against alphabet changes)
                let by_labels = if labels.is_empty() { None } else { p.cell.replay_labels_dyn(&labels) };
                let choices = by_labels.map(|r| r.choices).unwrap_or(choices.clone());
                match p.cell.replay_dyn(&choices) {
                    Ok(run) => {
                        for s in &run.summary.steps {
                            println!("{s}");
                        }
                        return match &run.violation {
                            Some(v) => {
                                println!("VIOLATION property={} replay={} oracle={} :: {}", v.property, path, v.oracle, v.detail);
                                1
                            }
                            None => {
                                println!("replay passes: no violation");
                                0
                            }
                        };
                    }
                    Err(e) => {
                        eprintln!("machinery error: {}", e.0);
                        return 2;
                    }
                }
            }
        }
    }
    eprintln!("cell {cell_name} of {prop} not found");
    2
}
