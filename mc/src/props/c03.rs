//! C03: structural changes reach clients atomically and in server order.
use crate::{
    check::{CellPlan, Tier, plan},
    repl::{Env, MutMenu, Oracles, ReplCell},
    sim::*,
};

pub fn cells(tier: Tier) -> Vec<CellPlan> {
    let mut v = Vec::new();
    let mut c = super::c01::base("c03-struct-1c", "C03");
    c.oracles = Oracles { c03: true, ..Default::default() };
    c.env = Env { hold_acks: false, hold_updates: 2, mutations: MutMenu::Hold, leftover_choice: false };
    v.push(plan(c, if tier.quick() { 1 } else { 2 }, 1.0));
    v
}

pub const RULE: &str = "structural histories (several operations per tick window spread over frames) x reliable-channel delays with <= d deviations; oracle after every client frame against per-tick per-client structural snapshots; non-trivial = at least one structural operation applied";
