//! C03: structural changes reach clients atomically and in server order.
use crate::{
    cells,
    check::{CellPlan, Tier, plan},
    repl::{Env, MutMenu, Oracles},
    sim::*,
};

pub fn cells(tier: Tier) -> Vec<CellPlan> {
    let o = Oracles { c03: true, ..Default::default() };
    let q = tier.quick();
    let env = Env { hold_acks: false, hold_updates: 2, mutations: MutMenu::Hold, leftover_choice: false, lossy: false };
    let mut v = Vec::new();
    let mut add = |mut c: crate::repl::ReplCell, dev_q: u32, dev_t: u32, rounds_t: usize, w: f64| {
        c.oracles = o.clone();
        c.env = env.clone();
        if !q {
            c.rounds = rounds_t;
        }
        v.push(plan(c, if q { dev_q } else { dev_t }, w));
    };
    add(cells::single("C03"), 1, 2, 4, 2.0);
    add(cells::two("C03"), 1, 2, 4, 2.0);
    add(cells::visibility("C03", Vis::Blacklist, 1), 1, 2, 4, 2.0);
    add(cells::visibility("C03", Vis::Whitelist, 1), 1, 2, 4, 2.0);
    add(cells::visibility("C03", Vis::Blacklist, 2), 1, 1, 3, 2.0);
    add(cells::vis_empty("C03", Vis::Whitelist), 1, 2, 4, 1.0);
    add(cells::vis_empty("C03", Vis::Blacklist), 1, 2, 4, 1.0);
    add(cells::refs("C03"), 1, 2, 4, 2.0);
    add(cells::same_frame("C03"), 1, 2, 3, 2.0);
    add(cells::three_clients("C03"), 0, 1, 3, 2.0);
    add(cells::hierarchy("C03"), 1, 2, 4, 1.0);
    add(cells::rates("C03"), 1, 2, 4, 1.0);
    add(cells::wiring("C03", TickWiring::EveryFrame, 10), 1, 2, 4, 1.0);
    add(cells::vis_despawns("C03", Vis::Blacklist), 0, 1, 2, 1.0);
    add(cells::vis_despawns("C03", Vis::Whitelist), 0, 1, 2, 1.0);
    add(cells::same_frame3("C03"), 1, 1, 2, 1.0);
    add(cells::wrap("C03", 4), 0, 1, 3, 1.0);
    add(cells::reinsert("C03"), 1, 2, 4, 1.0);
    add(cells::three_comps("C03", 2), 1, 1, 2, 1.0);
    add(cells::vis_neighbour("C03", Vis::Whitelist), 1, 1, 2, 1.0);
    add(cells::vis_neighbour("C03", Vis::Blacklist), 1, 1, 2, 1.0);
    add(cells::pool_reuse("C03"), 1, 1, 4, 1.0);
    add(cells::reref("C03"), 1, 1, 2, 1.0);
    add(cells::two_graphs_insert("C03"), 1, 1, 2, 1.0);
    v
}

pub const RULE: &str = "structural histories (several operations per tick window spread over frames) x reliable-channel delays with <= d deviations; oracle after every client frame against per-tick per-client structural snapshots; non-trivial = at least one structural operation applied";
