//! C09: disconnects, reconnects and server restarts start from a clean slate.
use crate::{
    check::{CellPlan, Tier, plan},
    events::*,
    sim::*,
};

fn base(name: &str, clients: usize) -> EvCell {
    let mut cfg = Cfg::default();
    cfg.events = true;
    cfg.clients = vec![1200; clients];
    EvCell {
        name: format!("c09-{name}"),
        property: "C09",
        cfg,
        connect_at_start: (0..clients).collect(),
        init: vec![Op::Spawn(0, (1 << TA) | (1 << TB))],
        alphabet: vec![EvOp::Nop],
        rounds: 4,
        tick_choice: true,
        env: EvEnv {
            hold_updates: 1,
            hold_events: true,
            reorder: false,
            drop_unreliable: false,
            hold_client_events: true,
            hold_mutations: true,
            hold_acks: true,
            update_latency: 0,
            update_batch: 0,
        },
        oracles: EvOracles { c05: true, convergence: true, c09: true, ..Default::default() },
        closure_rounds: 5,
    }
}

pub fn cells(tier: Tier) -> Vec<CellPlan> {
    let q = tier.quick();
    let mut v = Vec::new();

    // Client disconnect at every point of a replication history, reconnect later.
    let mut c = base("reconnect", 1);
    c.alphabet = vec![
        EvOp::Nop,
        EvOp::Disconnect(0),
        EvOp::Connect(0),
        EvOp::World(Op::Mut(0, TA)),
        EvOp::World(Op::Rm(0, TB)),
        EvOp::World(Op::Spawn(1, 1 << TA)),
        EvOp::World(Op::Despawn(0)),
        EvOp::EmitS(SK::E1, Mode::Broadcast, None),
        EvOp::EmitC(0, CK::C1, None),
        EvOp::EmitCStale(0),
        EvOp::DisconnectSlowly(0),
        EvOp::ConnectSlowly(0),
    ];
    c.rounds = if q { 3 } else { 4 };
    v.push(plan(c.clone(), if q { 1 } else { 2 }, 3.0));

    // The same with the connection status and the incoming messages applied inside the client's
    // frame (in `ClientSet::ReceivePackets`), as a messaging backend does.
    let mut cb = c.clone();
    cb.name = "c09-reconnect-backend".into();
    cb.cfg.backend_style = true;
    v.push(plan(cb, if q { 1 } else { 2 }, 2.0));

    // Server stop / start at every point.
    let mut c = base("restart", 1);
    c.alphabet = vec![
        EvOp::Nop,
        EvOp::StopServer,
        EvOp::StartServer,
        EvOp::Connect(0),
        EvOp::World(Op::Mut(0, TA)),
        EvOp::World(Op::Spawn(1, 1 << TA)),
        EvOp::World(Op::Despawn(0)),
        EvOp::EmitS(SK::E1, Mode::Broadcast, None),
        EvOp::EmitS(SK::EM, Mode::Broadcast, Some(0)),
    ];
    c.rounds = if q { 3 } else { 4 };
    // ... under every order of the server's send-side systems (`reset` among them) that the
    // library's declared constraints leave open
    for (choice, desc) in order_choices(&c.cfg).into_iter().filter(|(ch, _)| ch.0) {
        let mut c = c.clone();
        c.cfg.order_choice = Some(choice);
        c.name = format!("c09-restart-order[{desc}]");
        v.push(plan(c, if q { 0 } else { 1 }, 1.0));
    }
    v.push(plan(c, if q { 1 } else { 2 }, 3.0));

    // Events buffered on the server (emitted on a frame without a tick) at the moment it stops.
    let mut c = base("restart-buffered", 1);
    c.oracles.c04 = true;
    c.init = vec![Op::Spawn(0, (1 << TA) | (1 << TB))];
    c.alphabet = vec![
        EvOp::Nop,
        EvOp::StopServer,
        EvOp::StartServer,
        EvOp::StartServerWith(0),
        EvOp::StartServerWithEmit(0),
        EvOp::Connect(0),
        EvOp::EmitS(SK::E1, Mode::Broadcast, None),
        EvOp::EmitS(SK::T1, Mode::Broadcast, None),
    ];
    c.env.hold_updates = 0;
    c.env.hold_events = false;
    c.env.hold_client_events = false;
    c.env.hold_mutations = false;
    c.env.hold_acks = false;
    c.rounds = if q { 4 } else { 5 };
    v.push(plan(c, 0, 2.0));

    // Two clients: one reconnects while the other keeps its session.
    let mut c = base("two", 2);
    c.alphabet = vec![
        EvOp::Nop,
        EvOp::Disconnect(0),
        EvOp::Connect(0),
        EvOp::World(Op::Mut(0, TA)),
        EvOp::World(Op::Ins(0, TB)),
        EvOp::World(Op::Rm(0, TB)),
        EvOp::EmitS(SK::E1, Mode::Broadcast, None),
        EvOp::EmitS(SK::E1, Mode::Direct(0), None),
        EvOp::DisconnectAfterSend(0),
    ];
    c.rounds = if q { 3 } else { 4 };
    v.push(plan(c, 1, 2.0));

    // With a synchronized relationship and the default protocol check.
    let mut c = base("hier-auth", 1);
    c.cfg.auth = Auth::ProtocolCheck;
    c.cfg.with_child = true;
    c.cfg.sync_rel = true;
    c.init = vec![Op::Spawn(0, 1 << TA), Op::Spawn(1, 1 << TA), Op::SetParent(1, 0)];
    c.alphabet = vec![
        EvOp::Nop,
        EvOp::Disconnect(0),
        EvOp::Connect(0),
        EvOp::StopServer,
        EvOp::StartServer,
        EvOp::World(Op::Mut(1, TA)),
        EvOp::World(Op::ClearParent(1)),
        EvOp::World(Op::Spawn(2, 1 << TA)),
        EvOp::World(Op::SetParent(2, 0)),
    ];
    c.rounds = if q { 3 } else { 4 };
    v.push(plan(c, 1, 2.0));
    // Disconnect right after the client's messages were handed to the server.
    let mut c = base("late-disconnect", 2);
    c.alphabet = vec![
        EvOp::Nop,
        EvOp::EmitC(0, CK::C1, None),
        EvOp::EmitC(0, CK::CT, None),
        EvOp::EmitC(1, CK::C1, None),
        EvOp::LateDisconnect(0),
        EvOp::Connect(0),
        EvOp::World(Op::Mut(0, TA)),
    ];
    c.rounds = if q { 3 } else { 4 };
    v.push(plan(c, 1, 2.0));

    // Relationship graph changed while the server is stopped.
    let mut c = base("graph-restart", 1);
    c.cfg.with_child = true;
    c.cfg.sync_rel = true;
    c.init = vec![Op::Spawn(0, 1 << TA), Op::Spawn(1, 1 << TA), Op::SetParent(1, 0)];
    c.alphabet = vec![
        EvOp::Nop,
        EvOp::StopServer,
        EvOp::StartServer,
        EvOp::Connect(0),
        EvOp::World(Op::ClearParent(1)),
        EvOp::World(Op::SetParent(1, 0)),
        EvOp::World(Op::Mut(1, TA)),
    ];
    c.tick_choice = false;
    c.env.hold_updates = 0;
    c.env.hold_events = false;
    c.env.hold_client_events = false;
    c.env.hold_mutations = false;
    c.env.hold_acks = false;
    c.rounds = if q { 5 } else { 6 };
    v.push(plan(c, 0, 2.0));

    // Mutate-message tracking across a server restart: the old session ran far ahead in ticks.
    let mut c = base("track-restart", 1);
    c.cfg.track = true;
    c.cfg.tick_offset = 100;
    c.alphabet = vec![
        EvOp::Nop,
        EvOp::StopServer,
        EvOp::StartServer,
        EvOp::Connect(0),
        EvOp::Disconnect(0),
        EvOp::World(Op::Mut(0, TA)),
    ];
    c.tick_choice = false;
    c.env.hold_events = false;
    c.env.hold_client_events = false;
    c.rounds = if q { 5 } else { 6 };
    v.push(plan(c, if q { 0 } else { 1 }, 2.0));

    // Update channel two rounds behind by default: events are queued on the client at the moment
    // of the disconnect / stop without spending deviations.
    for (name, stop) in [("lag2-reconnect", false), ("lag2-restart", true)] {
        let mut c = base(name, 1);
        c.env.update_latency = 2;
        c.env.hold_updates = 0;
        c.env.hold_mutations = false;
        c.env.hold_acks = false;
        c.env.hold_client_events = false;
        c.tick_choice = false;
        c.alphabet = vec![
            EvOp::Nop,
            EvOp::World(Op::Ins(0, TB)),
            EvOp::World(Op::Mut(0, TA)),
            EvOp::EmitS(SK::E1, Mode::Broadcast, None),
            if stop { EvOp::StopServer } else { EvOp::Disconnect(0) },
            if stop { EvOp::StartServer } else { EvOp::Nop },
            EvOp::Connect(0),
        ];
        c.alphabet.dedup();
        if !q {
            c.alphabet.push(EvOp::World(Op::Rm(0, TB)));
            c.alphabet.push(EvOp::EmitS(SK::T1, Mode::Broadcast, None));
        }
        c.init = vec![Op::Spawn(0, 1 << TA)];
        c.rounds = if q { 6 } else { 7 };
        c.closure_rounds = 6;
        if !stop {
            let mut cb = c.clone();
            cb.name = format!("c09-{name}-backend");
            cb.cfg.backend_style = true;
            cb.rounds = if q { 5 } else { 6 };
            v.push(plan(cb, 0, 2.0));
        }
        v.push(plan(c, if q { 0 } else { 1 }, 3.0));
    }
    v
}

pub const RULE: &str = "histories of world operations and event emissions with a client disconnect or server stop injected at every round (with update, mutate, acknowledgement and event messages held in flight or buffered by earlier deviations), >= 1 frame down, then reconnect / restart, x schedules with <= d deviations; the restart cell also under both resolutions of every pair of send-side library systems whose order the declared constraints leave open; plus reconnects over loopback TCP with messages waiting in the client's link conditioner; no panic, per-frame confirmed-tick oracle and session-aware recipient oracle in the new session, no traffic for closed connections, convergence after closure; non-trivial = at least one event emitted or observed";
