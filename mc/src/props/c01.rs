//! C01: every client converges to the server state under any legal network schedule.
use crate::{
    cells,
    check::{CellPlan, Tier, plan},
    repl::Oracles,
    sim::*,
};

pub fn cells(tier: Tier) -> Vec<CellPlan> {
    let o = Oracles { c01: true, ..Default::default() };
    let q = tier.quick();
    let mut v = Vec::new();
    let mut add = |mut c: crate::repl::ReplCell, dev_q: u32, dev_t: u32, rounds_t: usize, w: f64| {
        c.oracles = o.clone();
        if !q {
            c.rounds = rounds_t;
        }
        v.push(plan(c, if q { dev_q } else { dev_t }, w));
    };
    add(cells::single("C01"), 1, 2, 4, 2.0);
    add(cells::two("C01"), 1, 2, 4, 2.0);
    add(cells::visibility("C01", Vis::Blacklist, 1), 1, 2, 4, 2.0);
    add(cells::visibility("C01", Vis::Whitelist, 1), 1, 2, 4, 2.0);
    add(cells::rates("C01"), 1, 2, 4, 1.0);
    add(cells::refs("C01"), 1, 2, 4, 1.0);
    add(cells::hierarchy("C01"), 1, 2, 4, 1.0);
    add(cells::wiring("C01", TickWiring::EveryFrame, 10), 1, 2, 4, 1.0);
    add(cells::wiring("C01", TickWiring::MaxTickRate(50), 10), 1, 2, 4, 1.0);
    add(cells::wiring("C01", TickWiring::MaxTickRate(50), 20), 1, 2, 4, 1.0);
    // the timer-driven cell under both resolutions of every pair of send-side library systems
    // whose order the declared constraints leave open
    {
        let base = cells::wiring("C01", TickWiring::MaxTickRate(50), 10);
        for (choice, desc) in order_choices(&base.cfg).into_iter().filter(|(ch, _)| ch.0) {
            let mut c = base.clone();
            c.cfg.order_choice = Some(choice);
            c.name = format!("c01-wiring-max50hz-order[{desc}]");
            add(c, 0, 1, 4, 0.5);
        }
    }
    add(cells::two_clients("C01"), 1, 2, 3, 2.0);
    add(cells::split_lossy("C01"), 2, 3, 4, 2.0);
    add(cells::same_frame("C01"), 1, 2, 3, 2.0);
    add(cells::three_clients("C01"), 0, 1, 3, 2.0);
    add(cells::vis_empty("C01", Vis::Whitelist), 1, 2, 4, 1.0);
    add(cells::vis_empty("C01", Vis::Blacklist), 1, 2, 4, 1.0);
    add(cells::vis_despawns("C01", Vis::Blacklist), 0, 1, 2, 1.0);
    add(cells::same_frame3("C01"), 1, 1, 2, 1.0);
    add(cells::wrap("C01", 4), 1, 2, 4, 1.0);
    add(cells::reinsert("C01"), 1, 2, 4, 1.0);
    add(cells::three_comps("C01", 1), 1, 2, 2, 1.0);
    add(cells::three_comps("C01", 2), 1, 1, 2, 1.0);
    add(cells::vis_neighbour("C01", Vis::Whitelist), 1, 1, 2, 1.0);
    add(cells::vis_neighbour("C01", Vis::Blacklist), 1, 1, 2, 1.0);
    add(cells::pool_reuse("C01"), 1, 1, 4, 1.0);
    add(cells::reref("C01"), 1, 1, 2, 1.0);
    add(cells::refs_shifted("C01"), 1, 1, 3, 1.0);
    add(cells::two_graphs_insert("C01"), 1, 1, 2, 1.0);
    v
}

pub const RULE: &str = "every history of <=1 op per round over the cell alphabet x tick/no-tick x every network schedule in normal form with <= d deviations, each run to closure on real Apps; non-trivial = at least one world operation applied; distinct = distinct final (server state, client views) digests";
