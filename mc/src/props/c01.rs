//! C01: every client converges to the server state under any legal network schedule.
use crate::{
    check::{CellPlan, Tier, plan},
    repl::{Env, Oracles, ReplCell},
    sim::*,
};

pub const AB: u16 = (1 << TA) | (1 << TB);

pub fn base(name: &str, property: &'static str) -> ReplCell {
    ReplCell {
        name: name.into(),
        property,
        cfg: Cfg::default(),
        init: vec![Op::Spawn(0, AB)],
        alphabet: vec![
            Op::Nop,
            Op::Mut(0, TA),
            Op::Rm(0, TA),
            Op::Rm(0, TB),
            Op::Ins(0, TB),
            Op::Spawn(1, 1 << TB),
            Op::Despawn(0),
        ],
        ops_per_round: 1,
        rounds: 3,
        tick_choice: true,
        env: Env::full(),
        oracles: Oracles::default(),
        closure_rounds: 6,
    }
}

pub fn cells(tier: Tier) -> Vec<CellPlan> {
    let mut v = Vec::new();
    let mut c = base("c01-ab-1c", "C01");
    c.oracles.c01 = true;
    v.push(plan(c, if tier.quick() { 1 } else { 2 }, 1.0));
    v
}

pub const RULE: &str = "every history of <=1 op per round over the cell alphabet x tick/no-tick x every network schedule in normal form with <= d deviations, each run to closure on two real Apps; non-trivial = at least one world operation applied; distinct = distinct final (server state, client views) digests";
