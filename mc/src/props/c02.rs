//! C02: the confirmed tick is truthful.
use crate::{
    check::{CellPlan, Tier, plan},
    repl::{Env, Oracles, ReplCell},
    sim::*,
};

pub fn cells(tier: Tier) -> Vec<CellPlan> {
    let mut v = Vec::new();
    let mut c = super::c01::base("c02-mut-1c", "C02");
    c.alphabet = vec![Op::Nop, Op::Mut(0, TA), Op::Mut(0, TB), Op::Rm(0, TB), Op::Ins(0, TB)];
    c.rounds = if tier.quick() { 3 } else { 4 };
    c.oracles = Oracles { c02: true, ..Default::default() };
    c.env = Env::full();
    v.push(plan(c, 2, 1.0));
    v
}

pub const RULE: &str = "histories over a mutation-heavy alphabet x network schedules with <= d deviations (mutate messages held, newest-only, oldest-only, reversed; updates and acks held); oracle after every client frame; non-trivial = at least one mutate message delivered to a client";
