//! C02: the confirmed tick is truthful.
use crate::{
    cells,
    check::{CellPlan, Tier, plan},
    repl::{Env, Oracles},
    sim::*,
};

pub fn cells(tier: Tier) -> Vec<CellPlan> {
    let o = Oracles { c02: true, ..Default::default() };
    let q = tier.quick();
    let mut v = Vec::new();
    let mut add = |mut c: crate::repl::ReplCell, dev_q: u32, dev_t: u32, rounds_q: usize, rounds_t: usize, w: f64| {
        c.oracles = o.clone();
        c.rounds = if q { rounds_q } else { rounds_t };
        v.push(plan(c, if q { dev_q } else { dev_t }, w));
    };
    let mut m = cells::mutations("C02");
    m.env = Env::full();
    add(m, 2, 3, 3, 4, 3.0);
    add(cells::single("C02"), 1, 2, 3, 4, 2.0);
    add(cells::two("C02"), 1, 2, 3, 4, 2.0);
    add(cells::refs("C02"), 1, 2, 3, 4, 1.0);
    add(cells::hierarchy("C02"), 1, 2, 3, 4, 1.0);
    add(cells::visibility("C02", Vis::Blacklist, 1), 1, 2, 3, 4, 1.0);
    add(cells::visibility("C02", Vis::Whitelist, 1), 1, 2, 3, 4, 1.0);
    add(cells::two_clients("C02"), 1, 2, 3, 3, 2.0);
    add(cells::rates("C02"), 1, 2, 3, 4, 1.0);
    add(cells::same_frame("C02"), 1, 2, 2, 3, 1.0);
    add(cells::split_lossy("C02"), 2, 3, 3, 4, 2.0);
    add(cells::wrap("C02", 4), 1, 2, 3, 4, 2.0);
    add(cells::same_frame3("C02"), 1, 1, 1, 2, 1.0);
    // entities carrying a marker that asks for history: late mutate messages are applied through
    // the marker's write function, which must not disturb the newest value
    let mut h = cells::mutations("C02");
    h.name = "c02-mut-hist".into();
    h.cfg.hist = true;
    h.env = Env::full();
    add(h, 2, 3, 3, 4, 2.0);
    // ... with entities that carry both markers, only the marker registered later (after the
    // older marker's functions had been set), or none
    let mut h = cells::mutations("C02");
    h.name = "c02-mut-hist-mixed".into();
    h.cfg.hist = true;
    h.cfg.hist_mixed = true;
    h.env = Env::full();
    add(h, 1, 2, 3, 4, 1.0);
    add(cells::three_comps("C02", 1), 1, 2, 2, 2, 1.0);
    add(cells::three_comps("C02", 2), 1, 1, 2, 2, 1.0);
    add(cells::refused_value("C02"), 1, 2, 3, 4, 1.0);
    add(cells::pool_reuse("C02"), 1, 1, 3, 4, 1.0);
    let mut r = cells::reinsert("C02");
    r.env = Env::full();
    add(r, 2, 3, 3, 4, 2.0);
    // A second client is authorized on a frame without a tick (custom authorization), between
    // mutations of an entity the first client already has: whatever the server sends because of
    // the newcomer, the first client's values at its confirmed tick stay the server's.
    {
        use crate::events::*;
        let mut cfg = Cfg::default();
        cfg.events = true;
        cfg.auth = Auth::Custom;
        cfg.clients = vec![1200, 1200];
        let c = EvCell {
            name: "c02-late-auth".into(),
            property: "C02",
            cfg,
            connect_at_start: vec![0, 1],
            init: vec![Op::Spawn(0, cells::AB)],
            alphabet: vec![
                EvOp::Nop,
                EvOp::Authorize(0),
                EvOp::Authorize(1),
                EvOp::World(Op::Mut(0, TA)),
                EvOp::World(Op::Mut(0, TB)),
            ],
            rounds: if q { 4 } else { 5 },
            tick_choice: true,
            env: EvEnv { hold_updates: 0, hold_events: false, reorder: false, drop_unreliable: false, hold_client_events: false, hold_mutations: false, hold_acks: false, update_latency: 0, update_batch: 0 },
            oracles: EvOracles { c09: true, convergence: true, ..Default::default() },
            closure_rounds: 4,
        };
        v.push(plan(c, 0, 1.0));
    }
    v
}

pub const RULE: &str = "histories over mutation-heavy and structural alphabets x network schedules with <= d deviations (mutate messages held, newest-only, oldest-only, reversed; updates and acks held); oracle after every client frame; non-trivial = at least one mutate message delivered to a client";
