//! C13: singleplayer / listen-server / dedicated-server / client logic sees each local event
//! exactly once, through exactly one path.
//!
//! One real App per execution; the harness is the remote peer (it only looks at what the App
//! puts into `RepliconClient` / `RepliconServer`).

use std::{
    collections::BTreeMap,
    hash::{Hash, Hasher},
    time::Duration,
};

use bevy::{prelude::*, time::TimeUpdateStrategy};
use bevy_replicon::prelude::*;
use serde::Serialize;

use crate::{
    check::{CellPlan, Tier, plan},
    events::*,
    explore::{ChoicePoint, Scenario, Summary, Violation},
    sim::guarded,
};

#[derive(Clone, Copy, Debug, PartialEq, Eq, Hash, Serialize)]
pub enum Build {
    /// All plugins: can be singleplayer, listen server or client.
    Full,
    /// Without the client-side plugins.
    Dedicated,
}

#[derive(Clone, Copy, Debug, PartialEq, Eq, Hash, Serialize)]
pub enum Rotation {
    /// No `TimePlugin`: event buffers rotate every frame.
    EveryFrame,
    /// `TimePlugin` with a manual frame time: buffers rotate only when a fixed step ran.
    FixedStep(u64),
}

#[derive(Clone, Copy, Debug, PartialEq, Eq, Hash, Serialize)]
pub enum ModeS {
    Broadcast,
    ExceptServer,
    DirectServer,
    ExceptRemote,
    DirectRemote,
}

#[derive(Clone, Copy, Debug, PartialEq, Eq, Hash, Serialize)]
pub enum St {
    Disconnected,
    Connecting,
    Connected,
}

#[derive(Clone, Copy, Debug, PartialEq, Eq, Hash, Serialize)]
pub enum COp {
    Nop,
    StartServer,
    /// `late`: applied inside the next frame in `ServerSet::PrepareSend`, as a backend would.
    StopServer { late: bool },
    /// `late`: applied inside the next frame in `ClientSet::PrepareSend`.
    Status { to: St, late: bool },
    /// Client event; `sys`: emitted from a system in `Update` instead of between frames.
    EmitC1 { sys: bool },
    /// Two server events of one type before the same frame: the first for the remote client
    /// only, the second for everyone.
    EmitE1Pair,
    /// The transport reports `Connected` and a system in `Update` of that very frame emits a
    /// client event (e.g. game logic behind `run_if(client_just_connected)`).
    ConnectAndEmit,
    /// Client event; the transport does not get to flush the client's outgoing queue in this
    /// frame (the link is about to go down): the message stays queued inside `RepliconClient`.
    EmitC1Unflushed,
    EmitCT { target: bool, sys: bool },
    EmitE1 { mode: ModeS, sys: bool },
    EmitT1 { mode: ModeS, sys: bool },
    /// Independent server event / trigger (sent at once, not tied to replication).
    EmitEI { mode: ModeS, sys: bool },
    EmitTI { mode: ModeS, sys: bool },
}

impl COp {
    fn show(&self) -> String {
        match self {
            COp::Nop => "nop".into(),
            COp::StartServer => "start server".into(),
            COp::StopServer { late } => format!("stop server{}", if *late { " (in PrepareSend)" } else { "" }),
            COp::Status { to, late } => format!("client status -> {to:?}{}", if *late { " (in PrepareSend)" } else { "" }),
            COp::EmitC1 { sys } => format!("emit client event{}", if *sys { " from Update" } else { "" }),
            COp::EmitC1Unflushed => "emit client event, transport does not flush this frame".into(),
            COp::ConnectAndEmit => "client status -> Connected, client event emitted from Update of the same frame".into(),
            COp::EmitE1Pair => "emit server event ExceptServer, then Broadcast, before the same frame".into(),
            COp::EmitCT { target, sys } => format!(
                "emit client trigger{}{}",
                if *target { " with target" } else { "" },
                if *sys { " from Update" } else { "" }
            ),
            COp::EmitE1 { mode, sys } => format!("emit server event {mode:?}{}", if *sys { " from Update" } else { "" }),
            COp::EmitT1 { mode, sys } => format!("emit server trigger {mode:?}{}", if *sys { " from Update" } else { "" }),
            COp::EmitEI { mode, sys } => format!("emit independent server event {mode:?}{}", if *sys { " from Update" } else { "" }),
            COp::EmitTI { mode, sys } => format!("emit independent server trigger {mode:?}{}", if *sys { " from Update" } else { "" }),
        }
    }
}

#[derive(Resource, Default)]
struct PendingStatus(Option<RepliconClientStatus>);
#[derive(Resource, Default)]
struct PendingStop(bool);
#[derive(Clone)]
enum PEmit {
    C1(Seq),
    CT(Seq, Option<Entity>),
    E1(Seq, SendMode),
    T1(Seq, SendMode),
    EI(Seq, SendMode),
    TI(Seq, SendMode),
}
#[derive(Resource, Default)]
struct PendingEmits(Vec<PEmit>);

fn apply_pending_status(mut p: ResMut<PendingStatus>, client: Option<ResMut<RepliconClient>>) {
    if let (Some(s), Some(mut client)) = (p.0.take(), client) {
        client.set_status(s);
    }
}
fn apply_pending_stop(mut p: ResMut<PendingStop>, mut server: ResMut<RepliconServer>) {
    if std::mem::take(&mut p.0) {
        server.set_running(false);
    }
}
fn apply_pending_emits(mut p: ResMut<PendingEmits>, mut commands: Commands) {
    for e in p.0.drain(..) {
        emit(&mut commands, e);
    }
}
fn emit(commands: &mut Commands, e: PEmit) {
    match e {
        PEmit::C1(s) => {
            commands.send_event(C1(s));
        }
        PEmit::CT(s, None) => commands.client_trigger(CT(s)),
        PEmit::CT(s, Some(t)) => commands.client_trigger_targets(CT(s), t),
        PEmit::E1(s, mode) => {
            commands.send_event(ToClients { mode, event: E1(s) });
        }
        PEmit::T1(s, mode) => commands.server_trigger(ToClients { mode, event: T1(s) }),
        PEmit::EI(s, mode) => {
            commands.send_event(ToClients { mode, event: EI(s) });
        }
        PEmit::TI(s, mode) => commands.server_trigger(ToClients { mode, event: TI(s) }),
    }
}

#[derive(Clone, Debug, Serialize)]
pub struct C13Cell {
    pub name: String,
    pub build: Build,
    pub rotation: Rotation,
    pub alphabet: Vec<COp>,
    pub rounds: usize,
    pub closure_frames: usize,
}

#[derive(Clone, Debug)]
struct Emission {
    n: u8,
    tag: u8,
    client_kind: bool,
    /// Is the local server among the recipients (server kinds)?
    server_is_recipient: bool,
    /// Is the remote client among the recipients (server kinds)?
    remote_is_recipient: bool,
    /// Configuration at the end of the emission frame.
    cfg_running: bool,
    cfg_status: Option<St>,
    settled: bool,
    /// The transport did not flush the frame in which the event was queued.
    unflushed: bool,
    /// The configuration (server running, client status) changed in a later frame.
    cfg_changed_later: bool,
    /// Had the remote connection been up at the end of the emission frame?
    remote_up: bool,
    /// Trigger target that the client cannot map to a server entity (such an event is not sent).
    unmapped_target: bool,
}

pub struct C13Exec {
    hold_drain: bool,
    app: App,
    round: usize,
    next_n: u8,
    remote: Option<Entity>,
    target: Entity,
    emissions: Vec<Emission>,
    /// n -> (local observations, wire sends, wrong identity seen)
    counts: BTreeMap<u8, (u32, u32)>,
    steps: Vec<String>,
    trace: std::collections::hash_map::DefaultHasher,
    states: Vec<u64>,
    transitions: u64,
    panicked: bool,
}

impl C13Cell {
    fn v(&self, oracle: &str, detail: String) -> Violation {
        Violation::new("C13", oracle, detail)
    }

    fn running(x: &C13Exec) -> bool {
        x.app.world().resource::<RepliconServer>().is_running()
    }

    fn status(x: &C13Exec) -> Option<St> {
        x.app.world().get_resource::<RepliconClient>().map(|c| match c.status() {
            RepliconClientStatus::Disconnected => St::Disconnected,
            RepliconClientStatus::Connecting => St::Connecting,
            RepliconClientStatus::Connected => St::Connected,
        })
    }

    fn enabled(&self, x: &C13Exec, op: COp) -> bool {
        let running = Self::running(x);
        let status = Self::status(x);
        let pending_status = x.app.world().resource::<PendingStatus>().0.is_some();
        let pending_stop = x.app.world().resource::<PendingStop>().0;
        match op {
            COp::Nop => true,
            // Supported configurations only: a running server is never a (connecting) client.
            COp::StartServer => !running && !pending_stop && matches!(status, None | Some(St::Disconnected)) && !pending_status,
            COp::StopServer { .. } => running && !pending_stop,
            COp::Status { to, .. } => {
                let Some(cur) = status else { return false };
                if running || pending_status || pending_stop {
                    return false;
                }
                match to {
                    // (from `Connected` too: a transport that reconnects on its own)
                    St::Connecting => cur != St::Connecting,
                    St::Connected => cur != St::Connected,
                    St::Disconnected => cur != St::Disconnected,
                }
            }
            COp::EmitC1 { .. } | COp::EmitCT { .. } | COp::EmitE1Pair => true,
            COp::EmitC1Unflushed => status == Some(St::Connected) && !pending_status,
            COp::ConnectAndEmit => !running && !pending_status && !pending_stop && matches!(status, Some(St::Disconnected) | Some(St::Connecting)),
            COp::EmitE1 { mode, .. } | COp::EmitT1 { mode, .. } | COp::EmitEI { mode, .. } | COp::EmitTI { mode, .. } => match mode {
                ModeS::ExceptRemote | ModeS::DirectRemote => running && x.remote.is_some(),
                _ => true,
            },
        }
    }

    fn frame(&self, x: &mut C13Exec) -> Result<(), Violation> {
        x.transitions += 1;
        let r = guarded(|| x.app.update());
        if let Err((msg, loc)) = r {
            x.panicked = true;
            x.steps.push(format!("  PANIC: {msg} at {loc}"));
            return Err(self
                .v("panic", format!("the app panicked: {msg} ({loc})"))
                .feat(format!("at:{}", crate::sim::short_loc(&loc))));
        }
        // a stopped backend drops its connections (the library's own reset may have done so already)
        if let Some(r) = x.remote {
            if x.app.world().get_entity(r).is_err() {
                x.remote = None;
            } else if !Self::running(x) {
                x.app.world_mut().entity_mut(r).despawn();
                x.remote = None;
            }
        }
        // local observations
        let obs = drain_observed(&mut x.app);
        let mut line = String::new();
        for o in obs {
            o.hash(&mut x.trace);
            let Some(em) = x.emissions.iter().find(|e| e.n == o.n && e.tag == o.tag) else {
                return Err(self.v("unknown-event", format!("observed #{} that was never emitted", o.n)));
            };
            if em.client_kind {
                if o.from != Some(SERVER.to_bits()) {
                    return Err(self.v(
                        "wrong-identity",
                        format!("client event #{} was observed locally with sender {:?} instead of the local-server identity", o.n, o.from),
                    ));
                }
            }
            let c = x.counts.entry(o.n).or_insert((0, 0));
            c.0 += 1;
            line.push_str(&format!(" local#{}", o.n));
        }
        // wire
        let mut wire: Vec<(u8, u8)> = Vec::new();
        let connected = Self::status(x) == Some(St::Connected);
        let hold = std::mem::take(&mut x.hold_drain);
        if let Some(mut client) = x.app.world_mut().get_resource_mut::<RepliconClient>().filter(|_| !hold) {
            let sent: Vec<_> = client.drain_sent().collect();
            for (_ch, bytes) in sent {
                bytes[..].hash(&mut x.trace);
                if !connected {
                    // set_status clears messages on disconnect, so anything here was queued
                    // while there was no connection
                    return Err(self.v(
                        "sent-without-connection",
                        "the app queued a client message although the client is not connected".into(),
                    ));
                }
                wire.extend(seqs_in(&bytes));
            }
        }
        let running = Self::running(x);
        let sent: Vec<_> = x.app.world_mut().resource_mut::<RepliconServer>().drain_sent().collect();
        for (dest, _ch, bytes) in sent {
            bytes[..].hash(&mut x.trace);
            if Some(dest) != x.remote {
                return Err(self.v(
                    "sent-to-nobody",
                    format!("the app queued a server message for {dest}, which is not a connected client"),
                ));
            }
            if !running {
                return Err(self.v(
                    "sent-without-connection",
                    "the app queued a server message although the server is not running".into(),
                ));
            }
            wire.extend(seqs_in(&bytes));
        }
        for (_tag, n) in wire {
            let c = x.counts.entry(n).or_insert((0, 0));
            c.1 += 1;
            line.push_str(&format!(" wire#{n}"));
        }
        // configuration at the end of the emission frame
        let status = Self::status(x);
        let remote_up = x.remote.is_some() && running;
        for em in x.emissions.iter_mut().filter(|e| e.settled) {
            if em.cfg_running != running || em.cfg_status != status {
                em.cfg_changed_later = true;
            }
        }
        for em in x.emissions.iter_mut().filter(|e| !e.settled) {
            em.settled = true;
            em.cfg_running = running;
            em.cfg_status = status;
            em.remote_up = remote_up;
        }
        for (n, (l, w)) in &x.counts {
            if *l > 1 || *w > 1 || (*l > 0 && *w > 0) {
                let em = x.emissions.iter().find(|e| e.n == *n).unwrap();
                // A server event legitimately goes both to the local server and to the wire.
                if !em.client_kind && *l <= 1 && *w <= 1 {
                    continue;
                }
                return Err(self
                    .v(
                        "handled-twice",
                        format!(
                            "event #{n} ({}) was observed locally {l} time(s) and put on the wire {w} time(s)",
                            if em.client_kind { "client kind" } else { "server kind" }
                        ),
                    )
                    .feat(if em.client_kind { "kind:client" } else { "kind:server" }));
            }
        }
        x.steps.push(format!(
            "    -> running {running} status {status:?}{}",
            if line.is_empty() { " (nothing observed)".to_string() } else { line }
        ));
        let mut h = std::collections::hash_map::DefaultHasher::new();
        (running, status, &x.counts, x.remote.is_some()).hash(&mut h);
        x.states.push(h.finish());
        Ok(())
    }

    fn final_check(&self, x: &mut C13Exec) -> Result<(), Violation> {
        for em in &x.emissions {
            let (l, w) = x.counts.get(&em.n).copied().unwrap_or((0, 0));
            let server_like = em.cfg_running
                || matches!(em.cfg_status, None | Some(St::Disconnected));
            if em.client_kind {
                if self.build == Build::Dedicated {
                    // only promised: nothing twice (checked per frame)
                    continue;
                }
                if server_like {
                    if (l, w) != (1, 0) {
                        return Err(self
                            .v(
                                "local-client-event",
                                format!(
                                    "client event #{} was emitted while the app acted as server or singleplayer (running {}, status {:?}); expected exactly one local observation and nothing on the wire, got {l} local / {w} wire",
                                    em.n, em.cfg_running, em.cfg_status
                                ),
                            )
                            .feat("kind:client"));
                    }
                } else if em.cfg_status == Some(St::Connected) {
                    // A message that the transport never flushed is lost with the connection
                    // (only "never twice, never without a connection" applies to it).
                    if em.unflushed && (l, w) == (0, 0) {
                        continue;
                    }
                    // A reference the client cannot translate means the event is not sent at all.
                    let want = if em.unmapped_target { (0, 0) } else { (0, 1) };
                    if (l, w) != want {
                        return Err(self
                            .v(
                                "remote-client-event",
                                format!(
                                    "client event #{} was emitted while connected; expected exactly one send and no local observation, got {l} local / {w} wire",
                                    em.n
                                ),
                            )
                            .feat("kind:client"));
                    }
                } else if l + w > 1 {
                    return Err(self.v("handled-twice", format!("client event #{} emitted while connecting: {l} local / {w} wire", em.n)));
                } else if em.cfg_status == Some(St::Connecting) && !em.cfg_changed_later && l != 0 {
                    // an app that stays a (connecting) client is not a server or singleplayer:
                    // it must not run server-side logic for its own input
                    return Err(self
                        .v(
                            "local-client-event",
                            format!("client event #{} was emitted while the app stayed a connecting client; expected no local observation with the local-server identity, got {l}", em.n),
                        )
                        .feat("kind:client-while-connecting"));
                }
            } else {
                if w > 0 && !em.remote_is_recipient {
                    return Err(self.v(
                        "wrong-recipient",
                        format!("server event #{} does not name the remote client but was sent to it", em.n),
                    ));
                }
                if self.build == Build::Dedicated {
                    continue;
                }
                if server_like {
                    let want_local = if em.server_is_recipient { 1 } else { 0 };
                    if l != want_local {
                        return Err(self
                            .v(
                                "local-server-event",
                                format!(
                                    "server event #{} (local server {} a recipient) emitted with running {} status {:?}: expected {want_local} local observation(s), got {l}",
                                    em.n,
                                    if em.server_is_recipient { "is" } else { "is not" },
                                    em.cfg_running,
                                    em.cfg_status
                                ),
                            )
                            .feat("kind:server"));
                    }
                    if em.cfg_running && em.remote_up {
                        let want_wire = if em.remote_is_recipient { 1 } else { 0 };
                        if w != want_wire {
                            return Err(self
                                .v(
                                    "remote-server-event",
                                    format!(
                                        "server event #{} (remote client {} a recipient): expected {want_wire} send(s), got {w}",
                                        em.n,
                                        if em.remote_is_recipient { "is" } else { "is not" }
                                    ),
                                )
                                .feat("kind:server"));
                        }
                    }
                } else if w != 0 {
                    return Err(self.v(
                        "sent-without-connection",
                        format!("server event #{} was emitted by an app acting as a client but was put on the wire", em.n),
                    ));
                } else if em.cfg_status == Some(St::Connected) && !em.cfg_changed_later && l != 0 {
                    // a connected client has no local server: nothing is among the recipients
                    // (only judged while the app stays a connected client: what a later status
                    // change makes of a lingering event is not fixed by the property)
                    return Err(self
                        .v(
                            "local-server-event",
                            format!(
                                "server event #{} was emitted while the app was a connected client (no local server); expected no local observation, got {l}",
                                em.n
                            ),
                        )
                        .feat("kind:server-on-client"));
                } else if l > 1 {
                    return Err(self.v("handled-twice", format!("server event #{} emitted while connecting: {l} local observations", em.n)));
                }
            }
        }
        Ok(())
    }
}

impl Scenario for C13Cell {
    type Exec = C13Exec;
    fn name(&self) -> String {
        self.name.clone()
    }
    fn cell(&self) -> serde_json::Value {
        serde_json::to_value(self).unwrap()
    }

    fn start(&self) -> C13Exec {
        let mut app = App::new();
        match self.rotation {
            Rotation::EveryFrame => {
                app.init_resource::<Time>();
            }
            Rotation::FixedStep(dt) => {
                app.add_plugins(bevy::time::TimePlugin)
                    .insert_resource(TimeUpdateStrategy::ManualDuration(Duration::from_millis(dt)));
            }
        }
        let group = RepliconPlugins
            .set(ServerPlugin { tick_policy: TickPolicy::EveryFrame, ..Default::default() })
            .set(RepliconSharedPlugin { auth_method: AuthMethod::None });
        match self.build {
            Build::Full => {
                app.add_plugins(group);
            }
            Build::Dedicated => {
                app.add_plugins(group.disable::<ClientPlugin>().disable::<ClientEventPlugin>());
            }
        }
        crate::events::register(&mut app);
        app.init_resource::<PendingStatus>()
            .init_resource::<PendingStop>()
            .init_resource::<PendingEmits>()
            .add_systems(Update, apply_pending_emits)
            .add_systems(PostUpdate, apply_pending_stop.in_set(ServerSet::PrepareSend));
        if self.build == Build::Full {
            app.add_systems(PostUpdate, apply_pending_status.in_set(ClientSet::PrepareSend));
        }
        app.finish();
        app.cleanup();
        let target = app.world_mut().spawn_empty().id();
        let mut x = C13Exec {
            hold_drain: false,
            app,
            round: 0,
            next_n: 1,
            remote: None,
            target,
            emissions: vec![],
            counts: BTreeMap::new(),
            steps: vec![],
            trace: Default::default(),
            states: vec![],
            transitions: 0,
            panicked: false,
        };
        let _ = self.frame(&mut x);
        x.steps.clear();
        x.states.clear();
        x
    }

    fn next(&self, x: &mut C13Exec) -> Option<ChoicePoint> {
        if x.round >= self.rounds {
            return None;
        }
        let ops: Vec<String> = self
            .alphabet
            .iter()
            .filter(|&&op| self.enabled(x, op))
            .map(|o| o.show())
            .collect();
        Some(ChoicePoint::history("op", ops))
    }

    fn apply(&self, x: &mut C13Exec, alt: usize) -> Result<(), Violation> {
        let ops: Vec<COp> = self.alphabet.iter().copied().filter(|&op| self.enabled(x, op)).collect();
        let op = ops[alt];
        x.steps.push(format!("round {}: {}", x.round + 1, op.show()));
        let remote = x.remote.unwrap_or(Entity::from_raw(4242));
        let send_mode = |m: ModeS| match m {
            ModeS::Broadcast => SendMode::Broadcast,
            ModeS::ExceptServer => SendMode::BroadcastExcept(SERVER),
            ModeS::DirectServer => SendMode::Direct(SERVER),
            ModeS::ExceptRemote => SendMode::BroadcastExcept(remote),
            ModeS::DirectRemote => SendMode::Direct(remote),
        };
        let recipients = |m: ModeS| -> (bool, bool) {
            // (local server, remote client)
            match m {
                ModeS::Broadcast => (true, true),
                ModeS::ExceptServer => (false, true),
                ModeS::DirectServer => (true, false),
                ModeS::ExceptRemote => (true, false),
                ModeS::DirectRemote => (false, true),
            }
        };
        let mut new_emission = |x: &mut C13Exec, tag: u8, client_kind: bool, rec: (bool, bool)| -> Seq {
            let n = x.next_n;
            x.next_n += 1;
            x.emissions.push(Emission {
                n,
                tag,
                client_kind,
                server_is_recipient: rec.0,
                remote_is_recipient: rec.1,
                cfg_running: false,
                cfg_status: None,
                settled: false,
                unflushed: false,
                cfg_changed_later: false,
                remote_up: false,
                unmapped_target: false,
            });
            seq(tag, n)
        };
        match op {
            COp::Nop => {}
            COp::StartServer => {
                x.app.world_mut().resource_mut::<RepliconServer>().set_running(true);
                let r = x.app.world_mut().spawn(ConnectedClient { max_size: 1200 }).id();
                x.remote = Some(r);
            }
            COp::StopServer { late } => {
                if late {
                    x.app.world_mut().resource_mut::<PendingStop>().0 = true;
                } else {
                    x.app.world_mut().resource_mut::<RepliconServer>().set_running(false);
                    // the backend drops its connections when it stops
                    if let Some(r) = x.remote.take() {
                        if x.app.world().get_entity(r).is_ok() {
                            x.app.world_mut().entity_mut(r).despawn();
                        }
                    }
                }
            }
            COp::Status { to, late } => {
                let s = match to {
                    St::Disconnected => RepliconClientStatus::Disconnected,
                    St::Connecting => RepliconClientStatus::Connecting,
                    St::Connected => RepliconClientStatus::Connected,
                };
                if late {
                    x.app.world_mut().resource_mut::<PendingStatus>().0 = Some(s);
                } else {
                    x.app.world_mut().resource_mut::<RepliconClient>().set_status(s);
                }
            }
            COp::EmitE1Pair => {
                for mode in [ModeS::ExceptServer, ModeS::Broadcast] {
                    let s = new_emission(x, SK::E1.tag(), false, recipients(mode));
                    x.app.world_mut().send_event(ToClients { mode: send_mode(mode), event: E1(s) });
                }
            }
            COp::ConnectAndEmit => {
                x.app.world_mut().resource_mut::<RepliconClient>().set_status(RepliconClientStatus::Connected);
                let s = new_emission(x, CK::C1.tag(), true, (false, false));
                x.app.world_mut().resource_mut::<PendingEmits>().0.push(PEmit::C1(s));
            }
            COp::EmitC1Unflushed => {
                let s = new_emission(x, CK::C1.tag(), true, (false, false));
                x.emissions.last_mut().unwrap().unflushed = true;
                x.hold_drain = true;
                x.app.world_mut().send_event(C1(s));
            }
            COp::EmitC1 { sys } => {
                let s = new_emission(x, CK::C1.tag(), true, (false, false));
                let e = PEmit::C1(s);
                if sys {
                    x.app.world_mut().resource_mut::<PendingEmits>().0.push(e);
                } else {
                    x.app.world_mut().send_event(C1(s));
                }
            }
            COp::EmitCT { target, sys } => {
                let s = new_emission(x, CK::CT.tag(), true, (false, false));
                x.emissions.last_mut().unwrap().unmapped_target = target;
                let t = target.then_some(x.target);
                if sys {
                    x.app.world_mut().resource_mut::<PendingEmits>().0.push(PEmit::CT(s, t));
                } else {
                    match t {
                        Some(t) => x.app.world_mut().client_trigger_targets(CT(s), t),
                        None => x.app.world_mut().client_trigger(CT(s)),
                    }
                }
            }
            COp::EmitE1 { mode, sys } => {
                let s = new_emission(x, SK::E1.tag(), false, recipients(mode));
                let m = send_mode(mode);
                if sys {
                    x.app.world_mut().resource_mut::<PendingEmits>().0.push(PEmit::E1(s, m));
                } else {
                    x.app.world_mut().send_event(ToClients { mode: m, event: E1(s) });
                }
            }
            COp::EmitT1 { mode, sys } => {
                let s = new_emission(x, SK::T1.tag(), false, recipients(mode));
                let m = send_mode(mode);
                if sys {
                    x.app.world_mut().resource_mut::<PendingEmits>().0.push(PEmit::T1(s, m));
                } else {
                    x.app.world_mut().server_trigger(ToClients { mode: m, event: T1(s) });
                }
            }
            COp::EmitEI { mode, sys } => {
                let s = new_emission(x, SK::EI.tag(), false, recipients(mode));
                let m = send_mode(mode);
                if sys {
                    x.app.world_mut().resource_mut::<PendingEmits>().0.push(PEmit::EI(s, m));
                } else {
                    x.app.world_mut().send_event(ToClients { mode: m, event: EI(s) });
                }
            }
            COp::EmitTI { mode, sys } => {
                let s = new_emission(x, SK::TI.tag(), false, recipients(mode));
                let m = send_mode(mode);
                if sys {
                    x.app.world_mut().resource_mut::<PendingEmits>().0.push(PEmit::TI(s, m));
                } else {
                    x.app.world_mut().server_trigger(ToClients { mode: m, event: TI(s) });
                }
            }
        }
        x.round += 1;
        self.frame(x)
    }

    fn finish(&self, x: &mut C13Exec) -> Result<(), Violation> {
        x.steps.push("closure: idle frames".into());
        for _ in 0..self.closure_frames {
            self.frame(x)?;
        }
        self.final_check(x)
    }

    fn summary(&self, x: &mut C13Exec) -> Summary {
        let mut oh = std::collections::hash_map::DefaultHasher::new();
        x.counts.hash(&mut oh);
        Summary {
            outcome: oh.finish(),
            nontrivial: !x.emissions.is_empty(),
            states: std::mem::take(&mut x.states),
            transitions: x.transitions,
            trace_digest: x.trace.clone().finish(),
            steps: x.steps.clone(),
        }
    }
}

pub fn cells(tier: Tier) -> Vec<CellPlan> {
    let q = tier.quick();
    let mut v = Vec::new();
    let client_ops = |late: bool| {
        vec![
            COp::Nop,
            COp::Status { to: St::Connecting, late: false },
            COp::Status { to: St::Connected, late: false },
            COp::Status { to: St::Disconnected, late },
            COp::Status { to: St::Disconnected, late: !late },
            COp::EmitC1 { sys: false },
            COp::EmitC1 { sys: true },
            COp::EmitC1Unflushed,
            COp::ConnectAndEmit,
            COp::EmitCT { target: false, sys: false },
            COp::EmitCT { target: true, sys: true },
            COp::EmitE1 { mode: ModeS::Broadcast, sys: false },
            COp::EmitT1 { mode: ModeS::DirectServer, sys: true },
        ]
    };
    let server_ops = vec![
        COp::Nop,
        COp::StartServer,
        COp::StopServer { late: false },
        COp::StopServer { late: true },
        COp::EmitC1 { sys: false },
        COp::EmitCT { target: true, sys: true },
        COp::EmitE1 { mode: ModeS::Broadcast, sys: false },
        COp::EmitE1 { mode: ModeS::ExceptServer, sys: true },
        COp::EmitE1 { mode: ModeS::DirectServer, sys: false },
        COp::EmitE1 { mode: ModeS::DirectRemote, sys: false },
        COp::EmitE1Pair,
        COp::EmitT1 { mode: ModeS::ExceptRemote, sys: true },
        COp::EmitT1 { mode: ModeS::Broadcast, sys: false },
    ];
    let rotations: &[Rotation] = if q {
        &[Rotation::EveryFrame, Rotation::FixedStep(10)]
    } else {
        &[Rotation::EveryFrame, Rotation::FixedStep(5), Rotation::FixedStep(10), Rotation::FixedStep(20)]
    };
    for &rot in rotations {
        let tag = match rot {
            Rotation::EveryFrame => "rot1".to_string(),
            Rotation::FixedStep(dt) => format!("dt{dt}"),
        };
        v.push(plan(
            C13Cell {
                name: format!("c13-client-{tag}"),
                build: Build::Full,
                rotation: rot,
                alphabet: client_ops(true),
                rounds: if q { 4 } else { 5 },
                closure_frames: 8,
            },
            0,
            2.0,
        ));
        v.push(plan(
            C13Cell {
                name: format!("c13-listen-{tag}"),
                build: Build::Full,
                rotation: rot,
                alphabet: server_ops.clone(),
                rounds: if q { 4 } else { 5 },
                closure_frames: 8,
            },
            0,
            2.0,
        ));
        v.push(plan(
            C13Cell {
                name: format!("c13-dedicated-{tag}"),
                build: Build::Dedicated,
                rotation: rot,
                alphabet: server_ops.clone(),
                rounds: if q { 3 } else { 4 },
                closure_frames: 8,
            },
            0,
            1.0,
        ));
        v.push(plan(
            C13Cell {
                name: format!("c13-independent-{tag}"),
                build: Build::Full,
                rotation: rot,
                alphabet: vec![
                    COp::Nop,
                    COp::StartServer,
                    COp::StopServer { late: true },
                    COp::EmitEI { mode: ModeS::Broadcast, sys: false },
                    COp::EmitEI { mode: ModeS::DirectServer, sys: true },
                    COp::EmitEI { mode: ModeS::ExceptServer, sys: false },
                    COp::EmitTI { mode: ModeS::DirectServer, sys: false },
                    COp::EmitTI { mode: ModeS::DirectRemote, sys: true },
                    COp::EmitE1 { mode: ModeS::DirectServer, sys: false },
                ],
                rounds: if q { 4 } else { 5 },
                closure_frames: 8,
            },
            0,
            1.0,
        ));
        // transitions between all configurations in one history
        let mut mixed = client_ops(false);
        mixed.extend([
            COp::StartServer,
            COp::StopServer { late: true },
            COp::EmitE1 { mode: ModeS::ExceptServer, sys: false },
        ]);
        v.push(plan(
            C13Cell {
                name: format!("c13-mixed-{tag}"),
                build: Build::Full,
                rotation: rot,
                alphabet: mixed,
                rounds: if q { 3 } else { 4 },
                closure_frames: 8,
            },
            0,
            2.0,
        ));
    }
    v
}

pub const RULE: &str = "all sequences (one operation per frame, <= r frames) of server start/stop, client status changes (between frames or inside PrepareSend, as a backend does), and emissions of client events/triggers and server events/triggers in every send mode (between frames or from an Update system), in the full and the dedicated-server build, under every event-buffer rotation regime; per event: number of local observations with the local-server identity and number of wire sends; non-trivial = at least one emission";

// -- with a real transport: the example backend over loopback -----------------------------------
//
// The scenario above changes the connection status the way a backend would (in the `PrepareSend`
// sets). This part lets an actual backend do it: two real Apps with the example backend over
// loopback TCP, every history of emissions and connection closes over a few frames.

pub mod backend {
    use std::{collections::BTreeSet, time::Duration};

    use bevy::prelude::*;
    use bevy_replicon::prelude::*;
    use bevy_replicon_example_backend::{ExampleClient, ExampleServer, RepliconExampleBackendPlugins};
    use serde::{Deserialize, Serialize};
    use serde_json::json;

    use crate::{
        check::{self, Outcome, Tier},
        sim::guarded,
    };

    #[derive(Event, Serialize, Deserialize, Clone, Debug)]
    struct BE(u32);
    #[derive(Event, Serialize, Deserialize, Clone, Debug)]
    struct BS(u32);

    #[derive(Resource, Default)]
    struct Got {
        /// `FromClient<BE>` observed by this app: (sender is the local server, n)
        from_client: Vec<(bool, u32)>,
        /// `BS` observed by this app
        server_events: Vec<u32>,
    }

    #[derive(Clone, Copy, Debug, PartialEq, Eq, Serialize, Deserialize)]
    pub enum BOp {
        Nop,
        Emit,
        /// The game closes the connection (removes the backend's resource) before the frame.
        Close,
        /// Emission and close before the same frame.
        EmitClose,
    }

    fn app() -> App {
        let mut app = App::new();
        app.init_resource::<Time>().add_plugins((
            RepliconPlugins.set(ServerPlugin { tick_policy: TickPolicy::EveryFrame, ..Default::default() }),
            RepliconExampleBackendPlugins,
        ));
        app.add_client_event::<BE>(Channel::Ordered)
            .add_server_event::<BS>(Channel::Ordered)
            .init_resource::<Got>()
            .add_systems(
                Update,
                |mut a: EventReader<FromClient<BE>>, mut b: EventReader<BS>, mut got: ResMut<Got>| {
                    for e in a.read() {
                        got.from_client.push((e.client == SERVER, e.event.0));
                    }
                    for e in b.read() {
                        got.server_events.push(e.0);
                    }
                },
            );
        app.finish();
        app.cleanup();
        app
    }

    fn connect() -> Result<Option<(App, App)>, String> {
        let mut server = app();
        let mut client = app();
        let socket = ExampleServer::new(0).map_err(|e| format!("bind: {e}"))?;
        let port = socket.local_addr().map_err(|e| e.to_string())?.port();
        let csock = ExampleClient::new(port).map_err(|e| format!("connect: {e}"))?;
        server.insert_resource(socket);
        client.insert_resource(csock);
        for _ in 0..300 {
            server.update();
            client.update();
            let has_client = {
                let w = server.world_mut();
                let mut q = w.query_filtered::<(), (With<ConnectedClient>, With<AuthorizedClient>)>();
                q.iter(w).count() == 1
            };
            if has_client && client.world().resource::<RepliconClient>().is_connected() {
                // let the handshake settle
                for _ in 0..3 {
                    server.update();
                    client.update();
                }
                return Ok(Some((server, client)));
            }
            std::thread::sleep(Duration::from_millis(1));
        }
        Ok(None)
    }

    /// Runs `peer` for a while so that whatever is in flight arrives (arrival timing over
    /// loopback is the kernel's): until `enough` holds or the patience runs out.
    fn settle(peer: &mut App, enough: impl Fn(&Got) -> bool, patience_ms: u64) {
        for i in 0..(patience_ms * 2).max(4) {
            peer.update();
            if i >= 3 && enough(peer.world().resource::<Got>()) {
                break;
            }
            std::thread::sleep(Duration::from_micros(500));
        }
        // two more frames to catch duplicates
        peer.update();
        peer.update();
    }

    /// Client-side history: `Err` = violation text, `Ok(None)` = connection could not be set up in time.
    pub fn client_history(ops: &[BOp]) -> Result<Option<u64>, (String, String)> {
        let Some((mut server, mut client)) = connect().map_err(|e| ("socket".to_string(), e))? else { return Ok(None) };
        let mut closed_at: Option<usize> = None;
        let mut emitted: Vec<(u32, usize)> = Vec::new();
        let mut must_remote: BTreeSet<u32> = BTreeSet::new();
        for (i, op) in ops.iter().enumerate() {
            if matches!(op, BOp::Emit | BOp::EmitClose) {
                let n = i as u32 + 1;
                client.world_mut().send_event(BE(n));
                emitted.push((n, i));
            }
            if matches!(op, BOp::Close | BOp::EmitClose) && closed_at.is_none() {
                client.world_mut().remove_resource::<ExampleClient>();
                closed_at = Some(i);
            }
            client.update();
            if *op == BOp::Emit && closed_at.is_none() {
                must_remote.insert(i as u32 + 1);
            }
            let want = must_remote.clone();
            settle(&mut server, |g| want.iter().all(|n| g.from_client.iter().any(|(_, m)| m == n)), 400);
        }
        for _ in 0..3 {
            client.update();
        }
        settle(&mut server, |_| true, 4);
        let local: Vec<(bool, u32)> = client.world().resource::<Got>().from_client.clone();
        let remote: Vec<(bool, u32)> = server.world().resource::<Got>().from_client.clone();
        for (n, i) in &emitted {
            let l = local.iter().filter(|(_, m)| m == n).count();
            let r = remote.iter().filter(|(_, m)| m == n).count();
            let when = match closed_at {
                None => "the connection stayed up".to_string(),
                Some(c) if *i < c => format!("the connection was closed {} frame(s) later", c - i),
                Some(c) if *i == c => "the connection was closed in the same frame".to_string(),
                Some(c) => format!("the connection had been closed {} frame(s) earlier", i - c),
            };
            if l + r != 1 {
                return Err(("backend-exactly-once".into(), format!("client event #{n} (emitted in frame {}; {when}) was handled {l} time(s) locally and {r} time(s) by the remote server; expected exactly one path", i + 1)));
            }
            if closed_at.is_none_or(|c| *i < c) && r != 1 {
                return Err(("backend-wrong-path".into(), format!("client event #{n} was emitted while connected ({when}) but was handled locally instead of being sent")));
            }
            if closed_at.is_some_and(|c| *i > c) && l != 1 {
                return Err(("backend-wrong-path".into(), format!("client event #{n} was emitted after the connection was closed but was not handled locally")));
            }
            if local.iter().any(|(is_server, m)| m == n && !is_server) {
                return Err(("backend-wrong-sender".into(), format!("client event #{n} was handled locally without the local-server sender identity")));
            }
        }
        Ok(Some((local.len() * 16 + remote.len()) as u64))
    }

    /// Server-side history: the listen server emits broadcasts and stops its transport.
    pub fn server_history(ops: &[BOp]) -> Result<Option<u64>, (String, String)> {
        let Some((mut server, mut client)) = connect().map_err(|e| ("socket".to_string(), e))? else { return Ok(None) };
        let mut stopped_at: Option<usize> = None;
        let mut emitted: Vec<(u32, usize)> = Vec::new();
        let mut must_remote: BTreeSet<u32> = BTreeSet::new();
        for (i, op) in ops.iter().enumerate() {
            if matches!(op, BOp::Emit | BOp::EmitClose) {
                let n = i as u32 + 1;
                server.world_mut().send_event(ToClients { mode: SendMode::Broadcast, event: BS(n) });
                emitted.push((n, i));
            }
            if matches!(op, BOp::Close | BOp::EmitClose) && stopped_at.is_none() {
                server.world_mut().remove_resource::<ExampleServer>();
                stopped_at = Some(i);
            }
            server.update();
            if *op == BOp::Emit && stopped_at.is_none() {
                must_remote.insert(i as u32 + 1);
            }
            let want = must_remote.clone();
            settle(&mut client, |g| want.iter().all(|n| g.server_events.contains(n)), 400);
        }
        for _ in 0..3 {
            server.update();
        }
        settle(&mut client, |_| true, 4);
        let local: Vec<u32> = server.world().resource::<Got>().server_events.clone();
        let remote: Vec<u32> = client.world().resource::<Got>().server_events.clone();
        for (n, i) in &emitted {
            let l = local.iter().filter(|m| *m == n).count();
            let r = remote.iter().filter(|m| *m == n).count();
            if l != 1 {
                return Err(("backend-local-server-event".into(), format!("broadcast #{n} (emitted in frame {}) was observed {l} time(s) by the emitting listen server / singleplayer app; expected once", i + 1)));
            }
            if r > 1 {
                return Err(("backend-exactly-once".into(), format!("broadcast #{n} reached the remote client {r} times")));
            }
            if stopped_at.is_none_or(|c| *i < c) && r != 1 {
                return Err(("backend-not-sent".into(), format!("broadcast #{n} was emitted while the server was running with a connected client but never reached it")));
            }
            if stopped_at.is_some_and(|c| *i > c) && r != 0 {
                return Err(("backend-sent-without-connection".into(), format!("broadcast #{n} was emitted after the server had stopped but reached the former client")));
            }
        }
        Ok(Some((local.len() * 16 + remote.len()) as u64))
    }

    fn histories(len: usize) -> Vec<Vec<BOp>> {
        let ops = [BOp::Nop, BOp::Emit, BOp::Close, BOp::EmitClose];
        let mut all: Vec<Vec<BOp>> = vec![vec![]];
        for _ in 0..len {
            let mut next = Vec::new();
            for h in &all {
                for op in ops {
                    // a second close has nothing to close
                    if matches!(op, BOp::Close | BOp::EmitClose) && h.iter().any(|o| matches!(o, BOp::Close | BOp::EmitClose)) {
                        continue;
                    }
                    let mut h2 = h.clone();
                    h2.push(op);
                    next.push(h2);
                }
            }
            all = next;
        }
        all.retain(|h| h.iter().any(|o| matches!(o, BOp::Emit | BOp::EmitClose)));
        all
    }

    /// A client event type that the game had registered as a regular event (and already written
    /// to) before handing it to replicon: in singleplayer the pending event is still handled by
    /// the local server logic, once.
    pub fn pre_registered_event(events_before: usize) -> Result<(), (String, String)> {
        use crate::events::*;
        let mut app = App::new();
        app.init_resource::<Time>().add_plugins(
            RepliconPlugins
                .set(ServerPlugin { tick_policy: TickPolicy::EveryFrame, ..Default::default() })
                .set(RepliconSharedPlugin { auth_method: AuthMethod::None }),
        );
        app.add_event::<C1>();
        for n in 1..=events_before as u8 {
            app.world_mut().send_event(C1(seq(CK::C1.tag(), n)));
        }
        register(&mut app);
        app.finish();
        app.cleanup();
        let mut seen: Vec<(u8, Option<u64>)> = Vec::new();
        for _ in 0..4 {
            app.update();
            seen.extend(drain_observed(&mut app).into_iter().map(|o| (o.n, o.from)));
        }
        for n in 1..=events_before as u8 {
            let k = seen.iter().filter(|(m, _)| *m == n).count();
            if k != 1 {
                return Err(("pre-registered-event".into(), format!("client event #{n} was written before the type was registered with replicon ({events_before} such events); in singleplayer it was handled locally {k} time(s) instead of once")));
            }
        }
        if seen.iter().any(|(_, from)| *from != Some(SERVER.to_bits())) {
            return Err(("pre-registered-event".into(), "a locally handled client event did not carry the local-server identity".into()));
        }
        Ok(())
    }

    pub fn part(tier: Tier, out: &mut Outcome) -> Result<(), crate::explore::MachineryError> {
        for k in 1..=3usize {
            out.evaluations += 1;
            out.nontrivial += 1;
            out.transitions += 4;
            let r = guarded(|| pre_registered_event(k)).unwrap_or_else(|(m, l)| Err(("panic".into(), format!("panic: {m} ({l})"))));
            if let Err((oracle, detail)) = r {
                out.violation_total += 1;
                let dir = std::path::Path::new(&check::verif_root()).join("replays").join("C13");
                let _ = std::fs::create_dir_all(&dir);
                let path = dir.join(format!("{:016x}.json", crate::explore::hash_of(&("prereg", k))));
                let doc = json!({"property": "C13", "kind": "c13-backend", "side": "prereg", "history": [], "events_before": k,
                    "violation": {"property": "C13", "oracle": oracle, "detail": detail}});
                std::fs::write(&path, serde_json::to_string_pretty(&doc).unwrap()).unwrap();
                out.new_violations.push(path);
                break;
            }
        }
        let len = if tier.quick() { 3 } else { 4 };
        let hs = histories(len);
        let findings = check::load_findings();
        let mut outcomes = BTreeSet::new();
        let mut inconclusive = 0u64;
        let mut seen = BTreeSet::new();
        for (side, f) in [("client", client_history as fn(&[BOp]) -> Result<Option<u64>, (String, String)>), ("server", server_history)] {
            for h in &hs {
                let mut r = Ok(None);
                for _attempt in 0..3 {
                    r = guarded(|| f(h)).unwrap_or_else(|(m, l)| Err(("panic".into(), format!("panic: {m} ({l})"))));
                    if !matches!(r, Ok(None)) {
                        break;
                    }
                }
                out.evaluations += 1;
                out.transitions += h.len() as u64 * 8;
                match r {
                    Ok(None) => inconclusive += 1,
                    Ok(Some(d)) => {
                        out.nontrivial += 1;
                        outcomes.insert((side, d));
                    }
                    Err((oracle, detail)) if oracle == "socket" => {
                        return Err(crate::explore::MachineryError(format!("loopback sockets unavailable: {detail}")));
                    }
                    Err((oracle, detail)) => {
                        out.nontrivial += 1;
                        out.violation_total += 1;
                        if !seen.insert((side, oracle.clone())) {
                            continue;
                        }
                        let feats: BTreeSet<String> = [format!("side:{side}"), "cellkind:backend".to_string()].into();
                        if let Some(k) = findings.findings.iter().find(|k| check::matches_known(k, "C13", &oracle, &feats)) {
                            out.known_hits.push(format!("KNOWN-FINDING: property=C13 {}", k.what));
                            continue;
                        }
                        let dir = std::path::Path::new(&check::verif_root()).join("replays").join("C13");
                        let _ = std::fs::create_dir_all(&dir);
                        let path = dir.join(format!("{:016x}.json", crate::explore::hash_of(&(side, &oracle, format!("{h:?}")))));
                        let doc = json!({"property": "C13", "kind": "c13-backend", "side": side, "history": h,
                            "violation": {"property": "C13", "oracle": oracle, "detail": detail, "features": feats}});
                        std::fs::write(&path, serde_json::to_string_pretty(&doc).unwrap()).unwrap();
                        out.new_violations.push(path);
                    }
                }
            }
        }
        out.states += outcomes.len() as u64;
        out.distinct_nontrivial += outcomes.len() as u64;
        out.distinct_outcomes += outcomes.len() as u64;
        out.assumptions.push("C13 backend part: arrival timing over loopback TCP is the kernel's; a connection that cannot be set up within the retry budget makes the history inconclusive, never a violation".into());
        out.reports.push(json!({"cell": "c13-backend-loopback", "histories_per_side": hs.len(), "frames_per_history": len, "sides": ["client closes", "server stops"],
            "inconclusive_timing": inconclusive, "distinct_outcomes": outcomes.len(), "exhaustive_within_bound": true}));
        eprintln!("  cell c13-backend-loopback          histories {:>6} inconclusive {inconclusive} outcomes {}", hs.len() * 2, outcomes.len());
        Ok(())
    }

    pub fn replay(doc: &serde_json::Value) -> i32 {
        let h: Vec<BOp> = serde_json::from_value(doc["history"].clone()).expect("history");
        let side = doc["side"].as_str().unwrap_or("client");
        if side == "prereg" {
            let k = doc["events_before"].as_u64().unwrap_or(1) as usize;
            return match pre_registered_event(k) {
                Ok(()) => {
                    println!("replay passes: no violation");
                    0
                }
                Err((oracle, detail)) => {
                    println!("VIOLATION property=C13 replay=<file> oracle={oracle} :: {detail}");
                    1
                }
            };
        }
        println!("side {side} history {h:?}");
        let r = if side == "client" { client_history(&h) } else { server_history(&h) };
        match r {
            Ok(_) => {
                println!("replay passes: no violation");
                0
            }
            Err((oracle, detail)) => {
                println!("VIOLATION property=C13 replay=<file> oracle={oracle} :: {detail}");
                1
            }
        }
    }
}
