//! C10: mutations of one entity or of related entities are never split across messages.
use crate::{explore::Violation, repl::{ReplCell, ReplExec}};

pub fn check_sizes(_cell: &ReplCell, _x: &mut ReplExec) -> Result<(), Violation> {
    Ok(())
}
