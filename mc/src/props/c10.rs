//! C10: mutations of one entity or of related entities are never split across messages.
//! Also hosts the split-delivery stage shared with C12.
use std::collections::{BTreeMap, BTreeSet};

use bevy::prelude::*;

use crate::{
    cells,
    check::{CellPlan, Tier, plan},
    explore::{ChoicePoint, Violation},
    repl::{Env, Oracles, ReplCell, ReplExec},
    sim::*,
};

const MUT: usize = 1;

/// Connected groups of marked entity slots under the `ChildOf` relation (as the server's
/// synchronized-relationship graph defines them).
fn groups(x: &ReplExec) -> Vec<BTreeSet<u8>> {
    let n = x.sim.ents.len() as u8;
    let mut parent: Vec<u8> = (0..n).collect();
    fn find(p: &mut Vec<u8>, a: u8) -> u8 {
        if p[a as usize] != a {
            let r = find(p, p[a as usize]);
            p[a as usize] = r;
        }
        p[a as usize]
    }
    for s in 0..n {
        if !x.sim.marked(s) {
            continue;
        }
        let e = x.sim.alive(s).unwrap();
        let rel: Vec<Entity> = [
            x.sim.server.world().get::<ChildOf>(e).map(|c| c.parent()),
            x.sim.server.world().get::<OwnedBy>(e).map(|o| o.0),
        ]
        .into_iter()
        .flatten()
        .collect();
        for target in rel {
            if let Some(ps) = (0..n).find(|&p| x.sim.alive(p) == Some(target)) {
                let (a, b) = (find(&mut parent, s), find(&mut parent, ps));
                parent[a as usize] = b;
            }
        }
    }
    let mut m: BTreeMap<u8, BTreeSet<u8>> = BTreeMap::new();
    for s in 0..n {
        if x.sim.alive(s).is_some() {
            let r = find(&mut parent, s);
            m.entry(r).or_default().insert(s);
        }
    }
    m.into_values().collect()
}

/// Parses the body of a mutate message into `(entity bits, record length)` pairs.
pub fn entity_records(track: bool, bytes: &[u8]) -> Option<(usize, Vec<(u64, usize)>)> {
    let mut pos = 0;
    read_varint(bytes, &mut pos)?;
    read_varint(bytes, &mut pos)?;
    if track {
        read_varint(bytes, &mut pos)?;
    }
    pos += 2;
    let header = pos;
    let mut recs = Vec::new();
    while pos < bytes.len() {
        let start = pos;
        let flagged = read_varint(bytes, &mut pos)?;
        let generation = if flagged & 1 == 1 { read_varint(bytes, &mut pos)? as u32 + 1 } else { 1 };
        let size = read_varint(bytes, &mut pos)? as usize;
        pos += size;
        let bits = ((generation as u64) << 32) | (flagged >> 1);
        recs.push((bits, pos - start));
    }
    if pos != bytes.len() {
        return None;
    }
    Some((header, recs))
}

/// Size clauses of C10, evaluated on the mutate messages of the last server frame.
pub fn check_sizes(cell: &ReplCell, x: &mut ReplExec) -> Result<(), Violation> {
    if !x.sim.last_frame_was_tick {
        return Ok(());
    }
    let frame = x.sim.server_frames;
    let grp = groups(x);
    let slot_of = |bits: u64| -> Option<u8> {
        (0..x.sim.ents.len() as u8).find(|&s| x.sim.ent(s).is_some_and(|e| e.to_bits() == bits))
    };
    for c in 0..cell.clients() {
        let max = x.sim.clients[c].max_size;
        let msgs: Vec<&WireRec> = x
            .sim
            .wire
            .iter()
            .rev()
            .take_while(|w| w.server_frame == frame)
            .filter(|w| w.client == c && w.channel == MUT)
            .collect();
        if msgs.is_empty() {
            continue;
        }
        let mut header = 0usize;
        let mut chunk_sizes: BTreeMap<usize, usize> = BTreeMap::new(); // group index -> bytes
        let mut entity_msgs: BTreeMap<u64, BTreeSet<u32>> = BTreeMap::new();
        let mut total = 0usize;
        for m in &msgs {
            let Some((h, recs)) = entity_records(cell.cfg.track, &m.bytes) else {
                // The wire layout is not part of the property: if it is not the one this harness
                // knows, the size clauses cannot be evaluated (the all-or-nothing oracle still is).
                x.sim.acks.format_unknown = true;
                return Ok(());
            };
            header = header.max(h);
            for (bits, len) in recs {
                total += len;
                entity_msgs.entry(bits).or_default().insert(m.id);
                let g = slot_of(bits).and_then(|s| grp.iter().position(|g| g.contains(&s)));
                // entities outside the pool form their own chunk
                let key = g.unwrap_or(1000 + bits as usize % 1000);
                *chunk_sizes.entry(key).or_default() += len;
            }
        }
        // one entity is never spread over two messages
        for (bits, ms) in &entity_msgs {
            if ms.len() > 1 {
                return Err(cell.v(
                    "C10",
                    "entity-in-two-messages",
                    format!("tick {}: entity {} appears in {} mutate messages to c{c}", x.sim.last_tick, fmt_bits(*bits), ms.len()),
                ));
            }
        }
        // related entities travel in the same message
        if cell.cfg.sync_rel {
            for g in &grp {
                let ids: BTreeSet<u32> = g
                    .iter()
                    .filter_map(|s| x.sim.ent(*s))
                    .filter_map(|e| entity_msgs.get(&e.to_bits()))
                    .flatten()
                    .copied()
                    .collect();
                if ids.len() > 1 {
                    return Err(cell
                        .v(
                            "C10",
                            "group-in-two-messages",
                            format!(
                                "tick {}: the related entities {:?} are spread over {} mutate messages to c{c}",
                                x.sim.last_tick,
                                g.iter().map(|s| format!("e{}", s + 1)).collect::<Vec<_>>(),
                                ids.len()
                            ),
                        )
                        .feat("kind:group"));
                }
            }
        }
        let all_chunks_fit = chunk_sizes.values().all(|&s| header + s <= max);
        if all_chunks_fit {
            for m in &msgs {
                if m.bytes.len() > max {
                    return Err(cell
                        .v(
                            "C10",
                            "message-too-large",
                            format!(
                                "tick {}: every entity / group fits into {max} bytes (header {header}, chunks {:?}) but a mutate message of {} bytes was sent to c{c}",
                                x.sim.last_tick,
                                chunk_sizes.values().collect::<Vec<_>>(),
                                m.bytes.len()
                            ),
                        )
                        .feat("kind:size"));
                }
            }
        }
        // With tracking the library reserves the maximum size of the message counter.
        let reserve = if cell.cfg.track { 9 } else { 0 };
        if header + reserve + total <= max && msgs.len() > 1 {
            return Err(cell
                .v(
                    "C10",
                    "needless-split",
                    format!(
                        "tick {}: header {header} + {total} bytes of mutations fit into {max} bytes but {} mutate messages were sent to c{c}",
                        x.sim.last_tick,
                        msgs.len()
                    ),
                )
                .feat("kind:count"));
        }
    }
    Ok(())
}

// -- split-delivery stage ---------------------------------------------------------------------

/// Mutates every continuously replicated component of every live marked entity, ticks, and
/// records the mutate messages of that tick (for client 0).
pub fn split_prepare(cell: &ReplCell, x: &mut ReplExec) -> Result<(), Violation> {
    // flush everything that is still in flight so that only the final tick's messages remain
    cell.lockstep_round(x, true)?;
    cell.lockstep_round(x, true)?;
    x.split_before.clear();
    x.split_versions.clear();
    let mut line = String::from("final stage: mutate");
    for slot in 0..x.sim.ents.len() as u8 {
        if !x.sim.marked(slot) {
            continue;
        }
        for (tag, op) in [(TA, Op::Mut(slot, TA)), (TB, Op::Mut(slot, TB))] {
            if x.sim.enabled(op) {
                x.sim.apply_op(op);
                x.split_versions.insert((slot + 1, tag), x.sim.ver);
                line.push_str(&format!(" {}(e{})", ctag_name(tag), slot + 1));
            }
        }
        if x.sim.alive(slot).is_some_and(|e| x.sim.server.world().entity(e).contains::<Big>()) {
            let len = x.sim.server.world().get::<Big>(x.sim.alive(slot).unwrap()).unwrap().0.len() as u16;
            x.sim.apply_op(Op::MutBig(slot, len));
            x.split_versions.insert((slot + 1, TBIG), x.sim.ver);
            line.push_str(&format!(" Big(e{})", slot + 1));
        }
    }
    x.sim.note(line);
    for c in 0..cell.clients() {
        x.sim.deliver_to_server(c, 0, &Sel::All);
    }
    x.sim.server_frame(true).map_err(|v| cell.own(v))?;
    if cell.oracles.c10 {
        check_sizes(cell, x)?;
    }
    x.split_tick = x.sim.last_tick;
    x.split_msgs = x.sim.clients[0].s2c[MUT].iter().map(|m| m.id).collect();
    let sizes: Vec<usize> = x.sim.clients[0].s2c[MUT].iter().map(|m| m.bytes.len()).collect();
    x.sim.note(format!("    tick {}: {} mutate message(s) {:?} bytes", x.split_tick, sizes.len(), sizes));
    Ok(())
}

fn ordered_subsets(k: usize) -> Vec<Vec<usize>> {
    // default first: everything in sending order; then every other ordered subset (orders only for k <= 3)
    let mut out: Vec<Vec<usize>> = vec![(0..k).collect()];
    for mask in 0..(1u32 << k) {
        let set: Vec<usize> = (0..k).filter(|i| mask & (1 << i) != 0).collect();
        let mut perms: Vec<Vec<usize>> = Vec::new();
        if k <= 3 {
            permute(&set, &mut vec![], &mut perms);
        } else {
            perms.push(set.clone());
        }
        for p in perms {
            if !out.contains(&p) {
                out.push(p);
            }
        }
    }
    out
}

fn permute(rest: &[usize], cur: &mut Vec<usize>, out: &mut Vec<Vec<usize>>) {
    if rest.is_empty() {
        out.push(cur.clone());
        return;
    }
    for i in 0..rest.len() {
        let mut r = rest.to_vec();
        let v = r.remove(i);
        cur.push(v);
        permute(&r, cur, out);
        cur.pop();
    }
}

pub fn split_choice(_cell: &ReplCell, x: &mut ReplExec) -> ChoicePoint {
    let k = x.split_msgs.len().min(5);
    let alts = ordered_subsets(k)
        .into_iter()
        .map(|s| format!("deliver {:?} first", s))
        .collect();
    // the subset is the property's own quantifier, not an environment deviation
    ChoicePoint::history("split", alts)
}

fn seen_ticks(x: &ReplExec, c: usize) -> Vec<u32> {
    x.sim.clients[c]
        .app
        .world()
        .get_resource::<MutateTicksSeen>()
        .map(|s| s.0.clone())
        .unwrap_or_default()
}

pub fn split_apply(cell: &ReplCell, x: &mut ReplExec, alt: usize) -> Result<(), Violation> {
    let k = x.split_msgs.len().min(5);
    let subset = ordered_subsets(k)[alt].clone();
    let t = x.split_tick;
    x.sim.note(format!("  client c0: mutate messages {:?} of {} first", subset, x.split_msgs.len()));
    let fired_before = seen_ticks(x, 0).iter().filter(|&&s| s == t).count();
    x.sim.deliver_to_client(0, 0, &Sel::All);
    x.sim.deliver_to_client(0, MUT, &Sel::Indices(subset.clone()));
    x.mut_msgs_delivered += subset.len() as u32;
    x.sim.client_frame(0).map_err(|v| cell.own(v))?;
    let view = x.sim.client_view(0);
    x.sim.note(format!("    view {}", view.show()));
    cell.check_client(x, 0)?;

    if cell.oracles.c10 {
        // which entities were brought to the final tick?
        let mut state: BTreeMap<u8, (usize, usize)> = BTreeMap::new(); // slot -> (updated comps, stale comps)
        for (&(etag, ctag), &ver) in &x.split_versions {
            let slot = etag - 1;
            let Some(e) = x.sim.alive(slot) else { continue };
            let Some(ce) = view.ents.get(&e.to_bits()) else { continue };
            let updated = match ce.comps.get(&ctag) {
                Some(CV::Bytes(b)) => b.get(3) == Some(&ver),
                _ => false,
            };
            let s = state.entry(slot).or_insert((0, 0));
            if updated {
                s.0 += 1;
            } else {
                s.1 += 1;
            }
        }
        for (slot, (u, s)) in &state {
            if *u > 0 && *s > 0 {
                return Err(cell
                    .v(
                        "C10",
                        "entity-partially-updated",
                        format!(
                            "after delivering mutate messages {subset:?} of tick {t}, e{} has {u} component(s) of that tick and {s} older one(s)",
                            slot + 1
                        ),
                    )
                    .feat("kind:entity"));
            }
        }
        if cell.cfg.sync_rel {
            for g in groups(x) {
                let members: Vec<(u8, bool)> = g
                    .iter()
                    .filter_map(|s| state.get(s).map(|(u, _)| (*s, *u > 0)))
                    .collect();
                if members.iter().any(|m| m.1) && members.iter().any(|m| !m.1) {
                    return Err(cell
                        .v(
                            "C10",
                            "group-partially-updated",
                            format!(
                                "after delivering mutate messages {subset:?} of tick {t}, the related entities {:?} are not updated together",
                                members.iter().map(|(s, u)| format!("e{}:{}", s + 1, if *u { "new" } else { "old" })).collect::<Vec<_>>()
                            ),
                        )
                        .feat("kind:group"));
                }
            }
        }
    }
    if cell.oracles.c12 {
        let fired = seen_ticks(x, 0).iter().filter(|&&s| s == t).count() - fired_before;
        let want = if subset.len() == x.split_msgs.len() && !x.split_msgs.is_empty() { 1 } else { 0 };
        if fired != want {
            return Err(cell.v(
                "C12",
                "mutate-tick-notification",
                format!(
                    "tick {t} has {} mutate message(s); after {} of them were applied MutateTickReceived fired {fired} time(s), expected {want}",
                    x.split_msgs.len(),
                    subset.len()
                ),
            ));
        }
        check_tracker(cell, x, t, want == 1)?;
    }
    // the rest arrives one frame later
    x.sim.deliver_to_client(0, MUT, &Sel::All);
    x.sim.client_frame(0).map_err(|v| cell.own(v))?;
    cell.check_client(x, 0)?;
    if cell.oracles.c12 {
        let fired = seen_ticks(x, 0).iter().filter(|&&s| s == t).count() - fired_before;
        let want = if x.split_msgs.is_empty() { 0 } else { 1 };
        if fired != want {
            return Err(cell.v(
                "C12",
                "mutate-tick-notification",
                format!(
                    "tick {t}: all {} mutate message(s) were applied; MutateTickReceived fired {fired} time(s) in total, expected exactly {want}",
                    x.split_msgs.len()
                ),
            ));
        }
        check_tracker(cell, x, t, want == 1)?;
    }
    Ok(())
}

/// `ServerMutateTicks::contains(t)` must agree with whether all messages of `t` were applied.
fn check_tracker(cell: &ReplCell, x: &mut ReplExec, t: u32, complete: bool) -> Result<(), Violation> {
    use bevy_replicon::{client::server_mutate_ticks::ServerMutateTicks, prelude::RepliconTick};
    let Some(ticks) = x.sim.clients[0].app.world().get_resource::<ServerMutateTicks>() else {
        return Ok(());
    };
    let got = ticks.contains(RepliconTick::new(t));
    if got != complete {
        return Err(cell.v(
            "C12",
            "mutate-tick-tracker",
            format!("ServerMutateTicks::contains({t}) = {got}, but all messages of that tick applied = {complete}"),
        ));
    }
    Ok(())
}

fn big_cell(name: &str, max: usize, lens: &[u16]) -> ReplCell {
    let mut c = cells::base(name, "C10");
    c.cfg.with_big = true;
    c.cfg.clients = vec![max];
    c.init = vec![];
    for (i, &l) in lens.iter().enumerate() {
        c.init.push(Op::Spawn(i as u8, cells::M_A));
        c.init.push(Op::InsBig(i as u8, l));
    }
    c.alphabet = vec![Op::Nop];
    c.rounds = 0;
    c.split_stage = true;
    c.env = Env::perfect();
    c.oracles = Oracles { c10: true, c02: true, ..Default::default() };
    c
}

pub fn cells(tier: Tier) -> Vec<CellPlan> {
    let q = tier.quick();
    let mut v = Vec::new();
    // Sizes around the packing boundaries for three maximum message sizes.
    for &max in &[48usize, 100, 1200] {
        let unit = max as u16;
        let classes: Vec<u16> = vec![8, unit / 3, unit / 2, unit - 24, unit - 16, unit - 12, unit, unit + 8];
        let picks: Vec<Vec<u16>> = if q {
            // pairs and a few triples
            let mut p = Vec::new();
            for &a in &classes {
                for &b in &classes {
                    p.push(vec![a, b]);
                }
            }
            p.push(vec![unit / 3, unit / 3, unit / 3]);
            p.push(vec![unit / 2, unit / 2, unit / 2]);
            p
        } else {
            let mut p = Vec::new();
            for &a in &classes {
                for &b in &classes {
                    p.push(vec![a, b]);
                    for &c in &classes {
                        p.push(vec![a, b, c]);
                    }
                }
            }
            p
        };
        for (i, lens) in picks.iter().enumerate() {
            v.push(plan(big_cell(&format!("sizes-{max}-{i}"), max, lens), 0, 0.05));
        }
    }
    // Fine sweep of the second payload around the point where two entities stop fitting together.
    for &max in &[48usize, 100, 1200] {
        for a in [max as u16 / 3, max as u16 / 2] {
            let hi = max as u16 - a;
            let lo = hi.saturating_sub(if q { 36 } else { 48 }).max(5);
            for b in lo..=hi {
                v.push(plan(big_cell(&format!("sweep-{max}-{a}-{b}"), max, &[a, b]), 0, 0.02));
            }
        }
    }
    // Relationship graphs evolving through insert / replace / remove / despawn / marker toggles.
    // (maximum sizes: one entity fits but two do not / two fit but three do not / everything fits)
    for &max in &[22usize, 26, 30, 40, 1200] {
        let mut c = cells::base(&format!("graph-{max}"), "C10");
        c.cfg.with_child = true;
        c.cfg.sync_rel = true;
        c.cfg.clients = vec![max];
        c.init = vec![Op::Spawn(0, cells::AB), Op::Spawn(1, cells::AB), Op::Spawn(2, cells::AB), Op::Spawn(3, cells::AB)];
        c.alphabet = vec![
            Op::Nop,
            Op::SetParent(1, 0),
            Op::SetParent(2, 1),
            Op::SetParent(3, 2),
            Op::SetParent(2, 0),
            Op::ClearParent(1),
            Op::ClearParent(2),
            Op::Unmark(1),
            Op::Mark(1),
            Op::ReMark(1),
            Op::Despawn(3),
            Op::SpawnChild(3, cells::AB, 0),
        ];
        c.rounds = if q { 3 } else { 4 };
        c.tick_choice = false;
        c.env = Env::perfect();
        c.split_stage = true;
        c.oracles = Oracles { c10: true, c02: true, ..Default::default() };
        v.push(plan(c, 0, 4.0));
    }
    // A server-only helper entity (no replication marker) that carries the relationship and is
    // moved between two families must never tie them together; two operations per tick, so that
    // both families are mutated in one tick. (22: one entity fits, two do not)
    for &max in &[22usize] {
        let mut c = cells::base(&format!("graph-helper-{max}"), "C10");
        c.cfg.with_child = true;
        c.cfg.sync_rel = true;
        c.cfg.clients = vec![max];
        c.init = vec![Op::Spawn(0, cells::AB), Op::Spawn(1, cells::AB), Op::Spawn(2, cells::AB), Op::Unmark(1)];
        c.alphabet = if q {
            vec![Op::Nop, Op::SetParent(1, 0), Op::SetParent(1, 2), Op::Mut(0, TA), Op::Mut(2, TA)]
        } else {
            vec![Op::Nop, Op::SetParent(1, 0), Op::SetParent(1, 2), Op::ClearParent(1), Op::Mut(0, TA), Op::Mut(2, TA), Op::Mark(1)]
        };
        c.ops_per_round = 2;
        c.rounds = 3;
        c.tick_choice = false;
        c.env = Env::perfect();
        c.split_stage = true;
        c.oracles = Oracles { c10: true, c02: true, ..Default::default() };
        v.push(plan(c, 0, 1.0));
    }
    {
        let mut c = cells::three_comps("C10", 1);
        c.oracles = Oracles { c10: true, c02: true, c01: true, ..Default::default() };
        v.push(plan(c, 1, 1.0));
    }
    // A chain e1 <- e2 <- e3 <- e4 that has been through ticks is cut, re-joined and re-rooted:
    // removing a relation whose two ends both keep other relations must still regroup.
    // (48: a pair of entities fits into one message, two pairs do not)
    for &max in &[26usize, 48, 1200] {
        let mut c = cells::base(&format!("graph-chain-{max}"), "C10");
        c.cfg.with_child = true;
        c.cfg.sync_rel = true;
        c.cfg.clients = vec![max];
        c.init = vec![
            Op::Spawn(0, cells::AB),
            Op::Spawn(1, cells::AB),
            Op::Spawn(2, cells::AB),
            Op::Spawn(3, cells::AB),
            Op::SetParent(1, 0),
            Op::SetParent(2, 1),
            Op::SetParent(3, 2),
        ];
        c.alphabet = vec![Op::Nop, Op::ClearParent(2), Op::ClearParent(1), Op::SetParent(2, 1), Op::SetParent(2, 0), Op::Mut(3, TA)];
        c.rounds = if q { 2 } else { 3 };
        c.tick_choice = true;
        c.env = Env::perfect();
        c.split_stage = true;
        c.oracles = Oracles { c10: true, c02: true, ..Default::default() };
        v.push(plan(c, 0, 1.0));
    }
    // Two synchronized relationship types that may connect the same pair of entities.
    for &max in &[22usize, 1200] {
        let mut c = cells::base(&format!("graph-two-relations-{max}"), "C10");
        c.cfg.with_child = true;
        c.cfg.sync_rel = true;
        c.cfg.with_owner = true;
        c.cfg.clients = vec![max];
        c.init = vec![Op::Spawn(0, cells::AB), Op::Spawn(1, cells::AB), Op::Spawn(2, cells::AB)];
        c.alphabet = vec![
            Op::Nop,
            Op::SetParent(1, 0),
            Op::SetOwner(1, 0),
            Op::ClearParent(1),
            Op::ClearOwner(1),
            Op::SetOwner(2, 1),
            Op::SetParent(2, 0),
            Op::ClearOwner(2),
        ];
        c.rounds = if q { 3 } else { 4 };
        c.tick_choice = false;
        c.env = Env::perfect();
        c.split_stage = true;
        c.oracles = Oracles { c10: true, c02: true, ..Default::default() };
        v.push(plan(c, 0, 2.0));
    }
    // The relationship graph across a server restart: relations that existed before the stop
    // still bind their entities together in the next session.
    for &max in &[14usize, 26] {
        use crate::events::*;
        let mut cfg = Cfg::default();
        cfg.events = true;
        cfg.with_child = true;
        cfg.sync_rel = true;
        cfg.with_owner = true;
        // (14: one entity fits, two do not - a pair that lost its relation is split;
        //  26: a pair fits, two pairs do not - pairs that wrongly stay related exceed the maximum)
        cfg.clients = vec![max];
        let c = EvCell {
            name: format!("c10-graph-restart-{max}"),
            property: "C10",
            cfg,
            connect_at_start: vec![0],
            init: vec![Op::Spawn(0, cells::M_A), Op::Spawn(1, cells::M_A), Op::Spawn(2, cells::M_A), Op::Spawn(3, cells::M_A), Op::SetParent(1, 0), Op::SetOwner(3, 2)],
            alphabet: vec![
                EvOp::Nop,
                EvOp::StopServer,
                EvOp::StartServerWith(0),
                EvOp::World(Op::Mut(0, TA)),
                EvOp::World(Op::Mut(1, TA)),
                EvOp::World(Op::Mut(2, TA)),
                EvOp::World(Op::Mut(3, TA)),
                EvOp::World(Op::ClearParent(1)),
                EvOp::EmitS(SK::E1, Mode::Broadcast, None),
            ],
            rounds: if q { 4 } else { 5 },
            tick_choice: true,
            env: EvEnv { hold_updates: 0, hold_events: false, reorder: false, drop_unreliable: false, hold_client_events: false, hold_mutations: false, hold_acks: false, update_latency: 0, update_batch: 0 },
            oracles: EvOracles { c10_groups: true, convergence: true, ..Default::default() },
            closure_rounds: 5,
        };
        let mut c = c;
        if max == 14 {
            // a relation dissolved while the server is down: stop, clear, start, mutate both
            c.alphabet = vec![
                EvOp::Nop,
                EvOp::StopServer,
                EvOp::StartServerWith(0),
                EvOp::WorldPair(Op::Mut(0, TA), Op::Mut(1, TA)),
                EvOp::World(Op::Mut(1, TA)),
                EvOp::World(Op::ClearParent(1)),
                EvOp::EmitS(SK::E1, Mode::Broadcast, None),
            ];
        }
        v.push(plan(c, 0, 2.0));
    }
    // A related group with one member hidden from the client (blacklist): the visible members
    // still travel together, the hidden one not at all.
    for &max in &[26usize, 1200] {
        let mut c = cells::base(&format!("graph-hidden-{max}"), "C10");
        c.cfg.with_child = true;
        c.cfg.sync_rel = true;
        c.cfg.vis = Vis::Blacklist;
        c.cfg.clients = vec![max];
        // (the hidden entity is only ever a leaf: a reference to an entity the client cannot see
        // creates a placeholder by design, which is outside the property)
        c.init = vec![Op::Spawn(0, cells::AB), Op::Spawn(1, cells::AB), Op::Spawn(2, cells::AB), Op::Spawn(3, cells::AB), Op::Vis(0, 3, false)];
        c.alphabet = vec![
            Op::Nop,
            Op::SetParent(1, 0),
            Op::SetParent(2, 1),
            Op::SetParent(3, 2),
            Op::SetParent(3, 0),
            Op::SetParent(2, 0),
            Op::ClearParent(3),
            Op::ClearParent(2),
            Op::Vis(0, 3, true),
            Op::Vis(0, 3, false),
        ];
        c.rounds = if q { 3 } else { 4 };
        c.tick_choice = false;
        c.env = Env::perfect();
        c.split_stage = true;
        c.oracles = Oracles { c10: true, c02: true, c08: true, c01: true, ..Default::default() };
        v.push(plan(c, 0, 2.0));
    }
    v
}

pub const RULE: &str = "(a) size cells: 2-3 entities with payload sizes around the packing boundaries of three maximum message sizes; (b) graph cells: every sequence of relationship insert / replace / remove, despawn and marker toggles over four entities (also with a server-only entity without the marker that carries the relationship and moves between two families, two operations per tick); in both, everything is mutated in one tick and every subset (every order for <= 3 messages) of that tick's mutate messages is delivered first, the rest one frame later; oracles: per-entity and per-related-group all-or-nothing on the client, one entity / one group per message, no message above the client's maximum when every chunk fits, a single message when everything fits; non-trivial = at least one mutate message delivered";
