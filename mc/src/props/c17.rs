//! C17: the example transport preserves per-channel order and delivers exactly once.
//!
//! (a) owned part: the real `LinkConditioner` (through the cfg-guarded hook), without a
//!     conditioner configuration, under every insert / pop sequence of a small alphabet and under
//!     bursts of 1..48 messages with equal arrival time; reference = FIFO per channel;
//! (b) end to end over loopback TCP with two real Apps: bursts queued in one sender frame; the
//!     oracle does not depend on how the kernel spreads arrival over receiver frames.

use std::{
    collections::{BTreeMap, BTreeSet},
    time::{Duration, Instant},
};

use bevy::prelude::*;
use bevy_replicon::{bytes::Bytes, prelude::*};
use bevy_replicon_example_backend::{ExampleClient, ExampleServer, RepliconExampleBackendPlugins, verif::Conditioner};
use serde::{Deserialize, Serialize};
use serde_json::json;

use crate::{
    check::{self, Outcome, Tier},
    explore::MachineryError,
    sim::guarded,
};

#[derive(Clone, Copy, Debug, PartialEq, Eq, PartialOrd, Ord, Hash)]
enum HOp {
    /// insert with timestamp class (0 = t0, 1 = t0 + 1 ms) on a channel
    Ins(u8, u8),
    /// pop everything that is ready at t0 / t0 + 1 ms
    Pop(u8),
}

struct Bad {
    oracle: &'static str,
    case: String,
    detail: String,
    replay: serde_json::Value,
}

/// Runs one insert/pop history on the real conditioner and compares with per-channel FIFOs.
fn run_history(ops: &[HOp]) -> Result<u64, String> {
    let t0 = Instant::now();
    let at = |c: u8| t0 + Duration::from_millis(c as u64);
    let mut cond = Conditioner::default();
    let mut next_id: u32 = 0;
    // reference: per channel queue of (timestamp class, id)
    let mut queues: BTreeMap<u8, Vec<(u8, u32)>> = BTreeMap::new();
    let mut delivered: BTreeSet<u32> = BTreeSet::new();
    let mut digest = 0u64;
    for op in ops {
        match *op {
            HOp::Ins(ts, ch) => {
                let id = next_id;
                next_id += 1;
                cond.insert(None, at(ts), ch, Bytes::copy_from_slice(&id.to_le_bytes()));
                queues.entry(ch).or_default().push((ts, id));
            }
            HOp::Pop(now) => {
                let mut got: BTreeMap<u8, Vec<u32>> = BTreeMap::new();
                while let Some((ch, bytes)) = cond.pop(at(now)) {
                    let id = u32::from_le_bytes(bytes[..4].try_into().unwrap());
                    if !delivered.insert(id) {
                        return Err(format!("message #{id} was delivered twice"));
                    }
                    got.entry(ch).or_default().push(id);
                    digest = digest.wrapping_mul(1_000_003).wrapping_add(id as u64 + 1);
                }
                for (ch, q) in queues.iter_mut() {
                    let ready: Vec<u32> = q.iter().filter(|(ts, _)| *ts <= now).map(|(_, id)| *id).collect();
                    let g = got.remove(ch).unwrap_or_default();
                    if g != ready {
                        return Err(format!("channel {ch}: sent in order {ready:?}, received {g:?}"));
                    }
                    q.retain(|(ts, _)| *ts > now);
                }
                if let Some((ch, g)) = got.into_iter().next() {
                    return Err(format!("channel {ch} received {g:?} that were never sent on it"));
                }
            }
        }
    }
    Ok(digest)
}

fn owned_part(tier: Tier, out: &mut Outcome, bad: &mut Vec<Bad>) {
    let mut histories = 0u64;
    let mut transitions = 0u64;
    let mut outcomes = BTreeSet::new();
    let mut record = |ops: &[HOp], r: Result<u64, String>, bad: &mut Vec<Bad>| {
        histories += 1;
        transitions += ops.len() as u64;
        match r {
            Ok(d) => {
                outcomes.insert(d);
            }
            Err(e) => bad.push(Bad {
                oracle: "order",
                case: format!("{ops:?}"),
                detail: e,
                replay: json!({"kind": "conditioner", "ops": ops.iter().map(|o| match o { HOp::Ins(t, c) => json!(["ins", t, c]), HOp::Pop(n) => json!(["pop", n]) }).collect::<Vec<_>>()}),
            }),
        }
    };
    // bursts: n messages with the same arrival time, three channel patterns, one pop at the end
    for n in 1..=48usize {
        for pattern in 0..3 {
            let mut ops: Vec<HOp> = (0..n)
                .map(|i| {
                    HOp::Ins(
                        0,
                        match pattern {
                            0 => 0,
                            1 => (i % 3) as u8,
                            _ => ((i / 4) % 3) as u8,
                        },
                    )
                })
                .collect();
            ops.push(HOp::Pop(0));
            let r = guarded(|| run_history(&ops)).unwrap_or_else(|(m, l)| Err(format!("panic: {m} ({l})")));
            record(&ops, r, bad);
        }
    }
    // soak: many frames of a few messages each (counters in the conditioner are cumulative)
    {
        let mut ops = Vec::new();
        for f in 0..220u32 {
            for i in 0..3u8 {
                ops.push(HOp::Ins(0, (i + (f % 2) as u8) % 2));
            }
            ops.push(HOp::Pop(0));
        }
        let r = guarded(|| run_history(&ops)).unwrap_or_else(|(m, l)| Err(format!("panic: {m} ({l})")));
        record(&ops, r, bad);
    }
    // every history over a small alphabet with non-decreasing timestamps (as the backend produces them)
    let alphabet = [HOp::Ins(0, 0), HOp::Ins(0, 1), HOp::Ins(1, 0), HOp::Ins(1, 1), HOp::Pop(0), HOp::Pop(1)];
    let depth = if tier.quick() { 7 } else { 9 };
    let mut stack: Vec<Vec<HOp>> = vec![vec![]];
    while let Some(h) = stack.pop() {
        if !h.is_empty() && matches!(h.last(), Some(HOp::Pop(_))) {
            let r = guarded(|| run_history(&h)).unwrap_or_else(|(m, l)| Err(format!("panic: {m} ({l})")));
            let failed = r.is_err();
            record(&h, r, bad);
            if failed && bad.len() > 200 {
                break;
            }
        }
        if h.len() >= depth {
            continue;
        }
        let max_ts = h.iter().filter_map(|o| if let HOp::Ins(t, _) = o { Some(*t) } else { None }).max().unwrap_or(0);
        for op in alphabet {
            if let HOp::Ins(t, _) = op {
                if t < max_ts {
                    continue; // arrival times never go backwards
                }
            }
            let mut n = h.clone();
            n.push(op);
            stack.push(n);
        }
    }
    out.evaluations += histories;
    out.nontrivial += histories;
    out.transitions += transitions;
    out.states += outcomes.len() as u64;
    out.distinct_outcomes += outcomes.len() as u64;
    out.distinct_nontrivial += outcomes.len() as u64;
    out.reports.push(json!({"cell": "c17a-conditioner", "histories": histories, "operations": transitions, "distinct_delivery_sequences": outcomes.len(), "bursts": "1..48 x 3 channel patterns", "alphabet_depth": depth, "exhaustive_within_bound": true}));
    eprintln!("  cell c17a-conditioner              histories {histories:>8} operations {transitions:>9} distinct {:>6}", outcomes.len());
}

// -- end to end over loopback ------------------------------------------------------------------

#[derive(Event, Serialize, Deserialize, Clone, Debug, PartialEq)]
struct Down0(u32, Vec<u8>);
#[derive(Event, Serialize, Deserialize, Clone, Debug, PartialEq)]
struct Down1(u32, Vec<u8>);
#[derive(Event, Serialize, Deserialize, Clone, Debug, PartialEq)]
struct Down2(u32, Vec<u8>);
#[derive(Event, Serialize, Deserialize, Clone, Debug, PartialEq)]
struct Up0(u32, Vec<u8>);
#[derive(Event, Serialize, Deserialize, Clone, Debug, PartialEq)]
struct Up1(u32, Vec<u8>);

/// Events without any payload: the message body is empty.
#[derive(Event, Serialize, Deserialize, Clone, Debug, PartialEq)]
struct DownEmpty;
#[derive(Event, Serialize, Deserialize, Clone, Debug, PartialEq)]
struct UpEmpty;

#[derive(Resource, Default)]
struct Got(Vec<(u8, u32, Vec<u8>)>);

/// Payload such that the serialized event (varint seq + varint len + bytes) has `size` bytes in total.
fn payload(seq: u32, size: usize) -> Vec<u8> {
    let seq_len = if seq < 128 { 1 } else { 2 };
    let mut n = size.saturating_sub(seq_len + 1);
    if n >= 128 {
        n = size.saturating_sub(seq_len + 2);
    }
    (0..n).map(|i| (seq as usize * 31 + i * 7) as u8).collect()
}

#[derive(Event, Serialize, Deserialize, Clone, Debug, PartialEq)]
struct UpA(u8);
#[derive(Event, Serialize, Deserialize, Clone, Debug, PartialEq)]
struct UpB(u8);
#[derive(Event, Serialize, Deserialize, Clone, Debug, PartialEq)]
struct UpC(u8);

/// When set, the Apps register more client channels than server channels (one server event,
/// six client events), so that the client channels used by the bursts have ids no server
/// channel has.
static UP_HEAVY: std::sync::atomic::AtomicBool = std::sync::atomic::AtomicBool::new(false);

fn build_app() -> App {
    let mut app = App::new();
    app.init_resource::<Time>().add_plugins((
        RepliconPlugins.set(ServerPlugin { tick_policy: TickPolicy::EveryFrame, ..Default::default() }),
        RepliconExampleBackendPlugins,
    ));
    if UP_HEAVY.load(std::sync::atomic::Ordering::SeqCst) {
        app.add_server_event::<Down0>(Channel::Ordered)
            .make_event_independent::<Down0>()
            .add_event::<Down1>()
            .add_event::<Down2>()
            .add_event::<DownEmpty>()
            .add_client_event::<UpA>(Channel::Ordered)
            .add_client_event::<UpB>(Channel::Unordered)
            .add_client_event::<UpC>(Channel::Ordered)
            .add_client_event::<Up0>(Channel::Ordered)
            .add_client_event::<Up1>(Channel::Ordered)
            .add_client_event::<UpEmpty>(Channel::Ordered);
    } else {
        app.add_server_event::<Down0>(Channel::Ordered)
            .make_event_independent::<Down0>()
            .add_server_event::<Down1>(Channel::Ordered)
            .make_event_independent::<Down1>()
            .add_server_event::<Down2>(Channel::Unordered)
            .make_event_independent::<Down2>()
            .add_client_event::<Up0>(Channel::Ordered)
            .add_client_event::<Up1>(Channel::Ordered)
            .add_server_event::<DownEmpty>(Channel::Ordered)
            .make_event_independent::<DownEmpty>()
            .add_client_event::<UpEmpty>(Channel::Ordered);
    }
    app
        .add_systems(Update, |mut a: EventReader<DownEmpty>, mut b: EventReader<FromClient<UpEmpty>>, mut got: ResMut<Got>| {
            for _ in a.read() {
                got.0.push((3, 0, Vec::new()));
            }
            for _ in b.read() {
                got.0.push((12, 0, Vec::new()));
            }
        })
        .init_resource::<Got>()
        .add_systems(
            Update,
            |mut a: EventReader<Down0>,
             mut b: EventReader<Down1>,
             mut c: EventReader<Down2>,
             mut d: EventReader<FromClient<Up0>>,
             mut e: EventReader<FromClient<Up1>>,
             mut got: ResMut<Got>| {
                for x in a.read() {
                    got.0.push((0, x.0, x.1.clone()));
                }
                for x in b.read() {
                    got.0.push((1, x.0, x.1.clone()));
                }
                for x in c.read() {
                    got.0.push((2, x.0, x.1.clone()));
                }
                for x in d.read() {
                    got.0.push((10, x.event.0, x.event.1.clone()));
                }
                for x in e.read() {
                    got.0.push((11, x.event.0, x.event.1.clone()));
                }
            },
        );
    app.finish();
    app.cleanup();
    app
}

/// One burst of `n` messages of `size` bytes in one sender frame; `Ok(None)` = inconclusive.
fn loopback_burst(n: usize, size: usize, upstream: bool) -> Result<Option<u64>, String> {
    run_burst(n, size, upstream, false)
}

/// Up to three attempts with growing patience. A connection that cannot be set up in time stays
/// inconclusive; a connection that is up but delivers nothing more in any of the attempts
/// (loopback hands written bytes to the reader at once) is a stall.
fn run_burst(n: usize, size: usize, upstream: bool, early: bool) -> Result<Option<u64>, String> {
    let mut stalls = Vec::new();
    for attempt in 0..3usize {
        match guarded(|| loopback_burst_with(n, size, upstream, early, attempt + 1)).unwrap_or_else(|(m, l)| Err(format!("panic: {m} ({l})"))) {
            Ok(Some(d)) => return Ok(Some(d)),
            Ok(None) => continue,
            Err(e) if e.starts_with("STALL") => stalls.push(e),
            Err(e) => return Err(e),
        }
    }
    if stalls.len() == 3 {
        return Err(format!("in three attempts with growing patience: {}", stalls.pop().unwrap()));
    }
    Ok(None)
}

/// `early` (server -> client only): the server accepts the connection and sends the whole burst
/// before the client app runs its first frame with the socket.
fn loopback_burst_with(n: usize, size: usize, upstream: bool, early: bool, patience: usize) -> Result<Option<u64>, String> {
    let mut server = build_app();
    let mut client = build_app();
    let socket = ExampleServer::new(0).map_err(|e| format!("bind: {e}"))?;
    let port = socket.local_addr().map_err(|e| e.to_string())?.port();
    let csock = ExampleClient::new(port).map_err(|e| format!("connect: {e}"))?;
    server.insert_resource(socket);
    let mut csock = Some(csock);
    if !early {
        client.insert_resource(csock.take().unwrap());
    }
    // connection establishment: arrival timing is the kernel's, so wait for it
    let mut connected = false;
    for _ in 0..200 {
        server.update();
        if early {
            let has_client = {
                let w = server.world_mut();
                let mut q = w.query::<&ConnectedClient>();
                q.iter(w).count() == 1
            };
            if has_client {
                connected = true;
                break;
            }
            std::thread::sleep(Duration::from_millis(1));
            continue;
        }
        client.update();
        let has_client = {
            let w = server.world_mut();
            let mut q = w.query::<&ConnectedClient>();
            q.iter(w).count() == 1
        };
        if has_client && client.world().resource::<RepliconClient>().is_connected() {
            connected = true;
            break;
        }
        std::thread::sleep(Duration::from_millis(1));
    }
    if !connected {
        return Ok(None);
    }
    let channels: u32 = if upstream { 2 } else { 3 };
    let mut sent: BTreeMap<u8, Vec<(u32, Vec<u8>)>> = BTreeMap::new();
    for i in 0..n as u32 {
        let p = payload(i, size);
        let ch = (i % channels) as u8;
        if upstream {
            match ch {
                0 => {
                    client.world_mut().send_event(Up0(i, p.clone()));
                }
                _ => {
                    client.world_mut().send_event(Up1(i, p.clone()));
                }
            }
            sent.entry(10 + ch).or_default().push((i, p));
        } else {
            let mode = SendMode::Broadcast;
            match ch {
                0 => {
                    server.world_mut().send_event(ToClients { mode, event: Down0(i, p.clone()) });
                }
                1 => {
                    server.world_mut().send_event(ToClients { mode, event: Down1(i, p.clone()) });
                }
                _ => {
                    server.world_mut().send_event(ToClients { mode, event: Down2(i, p.clone()) });
                }
            }
            sent.entry(ch).or_default().push((i, p));
        }
        // every third message is followed by one without any payload
        if i % 3 == 0 {
            if upstream {
                client.world_mut().send_event(UpEmpty);
                sent.entry(12).or_default().push((0, Vec::new()));
            } else {
                server.world_mut().send_event(ToClients { mode: SendMode::Broadcast, event: DownEmpty });
                sent.entry(3).or_default().push((0, Vec::new()));
            }
        }
    }
    let total: usize = sent.values().map(|v| v.len()).sum();
    // one sender frame queues the whole burst; the receiver then runs frames until everything is there
    if upstream {
        client.update();
    } else {
        server.update();
    }
    if let Some(csock) = csock.take() {
        // only now does the client app learn about its socket
        std::thread::sleep(Duration::from_millis(2));
        client.insert_resource(csock);
    }
    let mut all: Vec<(u8, u32, Vec<u8>)> = Vec::new();
    if early {
        // the client app's first frame with the socket: everything the server wrote is pending
        client.update();
        all.append(&mut client.world_mut().resource_mut::<Got>().0);
    }
    // A sentinel is sent in a later sender frame on the same connection: TCP is first-in
    // first-out, so once the sentinel is there, whatever was sent before it and is still
    // missing is lost, not late.
    const SENTINEL: u32 = u32::MAX;
    if upstream {
        client.world_mut().send_event(Up0(SENTINEL, Vec::new()));
        client.update();
    } else {
        server.world_mut().send_event(ToClients { mode: SendMode::Broadcast, event: Down0(SENTINEL, Vec::new()) });
        server.update();
    }
    let mut sentinel_seen = false;
    for _ in 0..600 * patience {
        let rx = if upstream { &mut server } else { &mut client };
        rx.update();
        all.append(&mut rx.world_mut().resource_mut::<Got>().0);
        if all.iter().any(|m| m.1 == SENTINEL) {
            sentinel_seen = true;
            // two more frames to catch duplicates
            rx.update();
            rx.update();
            all.append(&mut rx.world_mut().resource_mut::<Got>().0);
            break;
        }
        std::thread::sleep(Duration::from_micros(300));
    }
    let sentinels = all.iter().filter(|m| m.1 == SENTINEL).count();
    all.retain(|m| m.1 != SENTINEL);
    if sentinels > 1 {
        return Err(format!("the sentinel message arrived {sentinels} times"));
    }
    if sentinel_seen && all.len() < total {
        let mut missing: Vec<String> = Vec::new();
        for (ch, want) in &sent {
            let got = all.iter().filter(|m| m.0 == *ch).count();
            if got < want.len() {
                missing.push(format!("channel {ch}: {} of {} (payload sizes {:?})", want.len() - got, want.len(), want.iter().map(|w| w.1.len()).collect::<BTreeSet<_>>()));
            }
        }
        return Err(format!(
            "{} of {total} messages never arrived although a message sent after them on the same connection did: {}",
            total - all.len(),
            missing.join("; ")
        ));
    }
    if all.len() < total {
        // A transport that gave up on the connection is not a matter of timing.
        let server_has_client = {
            let w = server.world_mut();
            let mut q = w.query::<&ConnectedClient>();
            q.iter(w).count() == 1
        };
        let client_up = client.world().resource::<RepliconClient>().is_connected();
        if !server_has_client || !client_up {
            return Err(format!(
                "the connection was dropped while {} of {total} messages were still outstanding (server sees client: {server_has_client}, client connected: {client_up})",
                total - all.len()
            ));
        }
        // the connection is up on both sides, yet neither the sentinel nor the rest arrived
        return Err(format!(
            "STALL: {} of {total} messages and the sentinel sent after them did not arrive within {} receiver frames although the connection is up on both sides",
            total - all.len(),
            600 * patience
        ));
    }
    let mut per: BTreeMap<u8, Vec<(u32, Vec<u8>)>> = BTreeMap::new();
    for (ch, s, p) in all {
        per.entry(ch).or_default().push((s, p));
    }
    for (ch, want) in &sent {
        let got = per.remove(ch).unwrap_or_default();
        // the unordered channel (2) only promises exactly-once and integrity
        let (mut g, mut w) = (got.clone(), want.clone());
        if *ch == 2 {
            g.sort();
            w.sort();
        }
        if g != w {
            let gs: Vec<u32> = got.iter().map(|x| x.0).collect();
            let ws: Vec<u32> = want.iter().map(|x| x.0).collect();
            return Err(format!("channel {ch}: sent {ws:?}, received {gs:?}{}", if gs == ws { " (payload bytes differ)" } else { "" }));
        }
    }
    if let Some((ch, g)) = per.into_iter().next() {
        return Err(format!("channel {ch} delivered {} messages that were not sent on it", g.len()));
    }
    Ok(Some((n * 1000 + size) as u64 * 2 + early as u64))
}

/// Two clients: a message that the transport cannot write (too large to be framed) is queued
/// for client A, followed in the same server frame by `n` ordinary messages for client B.
/// A server with two connected clients (in connection order).
fn two_clients(lossy_first: bool) -> Result<Option<(App, Vec<App>, Vec<Entity>)>, String> {
    let mut server = build_app();
    let socket = ExampleServer::new(0).map_err(|e| format!("bind: {e}"))?;
    let port = socket.local_addr().map_err(|e| e.to_string())?.port();
    server.insert_resource(socket);
    let mut clients: Vec<App> = Vec::new();
    let mut conns: Vec<Entity> = Vec::new();
    for k in 0..2 {
        let mut c = build_app();
        c.insert_resource(ExampleClient::new(port).map_err(|e| format!("connect: {e}"))?);
        let mut up = false;
        for _ in 0..300 {
            server.update();
            c.update();
            for other in clients.iter_mut() {
                other.update();
            }
            let now: Vec<Entity> = {
                let w = server.world_mut();
                let mut q = w.query_filtered::<Entity, With<ConnectedClient>>();
                q.iter(w).collect()
            };
            if now.len() == k + 1 && c.world().resource::<RepliconClient>().is_connected() {
                conns.push(*now.iter().find(|e| !conns.contains(e)).unwrap());
                if lossy_first && k == 0 {
                    // (before the second client connects, so that this connection's archetype is
                    // the older one and is visited first)
                    server.world_mut().entity_mut(conns[0]).insert(bevy_replicon_example_backend::ConditionerConfig { latency: 0, jitter: 0, loss: 1.0 });
                }
                up = true;
                break;
            }
            std::thread::sleep(Duration::from_millis(1));
        }
        if !up {
            return Ok(None);
        }
        clients.push(c);
    }
    Ok(Some((server, clients, conns)))
}

fn failed_write_next_to_healthy_client(n: usize) -> Result<Option<u64>, String> {
    let Some((mut server, mut clients, conns)) = two_clients(false)? else { return Ok(None) };
    let (a, b) = (conns[0], conns[1]);
    server.world_mut().send_event(ToClients { mode: SendMode::Direct(a), event: Down0(0, vec![7u8; 70_000]) });
    let mut want = Vec::new();
    for i in 1..=n as u32 {
        let p = payload(i, 16);
        server.world_mut().send_event(ToClients { mode: SendMode::Direct(b), event: Down0(i, p.clone()) });
        want.push((i, p));
    }
    server.update();
    const SENTINEL: u32 = u32::MAX;
    server.world_mut().send_event(ToClients { mode: SendMode::Direct(b), event: Down0(SENTINEL, Vec::new()) });
    server.update();
    let rx = &mut clients[1];
    let mut all: Vec<(u8, u32, Vec<u8>)> = Vec::new();
    let mut seen = false;
    for _ in 0..1200 {
        rx.update();
        all.append(&mut rx.world_mut().resource_mut::<Got>().0);
        if all.iter().any(|m| m.1 == SENTINEL) {
            seen = true;
            rx.update();
            all.append(&mut rx.world_mut().resource_mut::<Got>().0);
            break;
        }
        std::thread::sleep(Duration::from_micros(300));
    }
    if !seen {
        let up = rx.world().resource::<RepliconClient>().is_connected();
        return Err(format!("STALL: the healthy client (connected: {up}) received {} of {n} messages and no sentinel after the server failed to write to the other client", all.len()));
    }
    all.retain(|m| m.1 != SENTINEL);
    let got: Vec<(u32, Vec<u8>)> = all.into_iter().map(|m| (m.1, m.2)).collect();
    if got != want {
        return Err(format!(
            "the healthy client received {:?} instead of 1..={n} after the server failed to write an oversized message to the other client in the same frame",
            got.iter().map(|g| g.0).collect::<Vec<_>>()
        ));
    }
    Ok(Some(n as u64))
}


// -- owned segmentation: a byte relay between the client's and the server's socket ---------------

/// An in-process relay under the harness's control: the client connects to the relay, the relay
/// to the server; bytes move only when the harness says so, in the pieces it chooses.
struct Relay {
    client_side: std::net::TcpStream,
    server_side: std::net::TcpStream,
    to_client: Vec<u8>,
    to_server: Vec<u8>,
}

impl Relay {
    /// Reads whatever both peers have written so far into the relay's buffers.
    fn pump(&mut self) {
        use std::io::Read;
        let mut buf = [0u8; 65536];
        loop {
            match self.client_side.read(&mut buf) {
                Ok(0) | Err(_) => break,
                Ok(n) => self.to_server.extend_from_slice(&buf[..n]),
            }
        }
        loop {
            match self.server_side.read(&mut buf) {
                Ok(0) | Err(_) => break,
                Ok(n) => self.to_client.extend_from_slice(&buf[..n]),
            }
        }
    }
    fn forward_to_client(&mut self, k: usize) {
        use std::io::Write;
        let k = k.min(self.to_client.len());
        let piece: Vec<u8> = self.to_client.drain(..k).collect();
        if !piece.is_empty() {
            self.client_side.set_nonblocking(false).ok();
            let _ = self.client_side.write_all(&piece);
            self.client_side.set_nonblocking(true).ok();
        }
    }
    fn forward_to_server(&mut self, k: usize) {
        use std::io::Write;
        let k = k.min(self.to_server.len());
        let piece: Vec<u8> = self.to_server.drain(..k).collect();
        if !piece.is_empty() {
            self.server_side.set_nonblocking(false).ok();
            let _ = self.server_side.write_all(&piece);
            self.server_side.set_nonblocking(true).ok();
        }
    }
    fn forward_all(&mut self) {
        self.pump();
        let (a, b) = (self.to_client.len(), self.to_server.len());
        self.forward_to_client(a);
        self.forward_to_server(b);
    }
}

/// `n` messages of `size` bytes are sent in one frame; the relay hands the first `split` bytes of
/// that frame's byte stream to the receiver, the receiver runs two frames, then the rest follows.
/// Returns the length of the byte stream (so that the caller can enumerate split points).
fn relayed_burst(n: usize, size: usize, upstream: bool, split: usize) -> Result<Option<usize>, String> {
    let mut server = build_app();
    let mut client = build_app();
    let socket = ExampleServer::new(0).map_err(|e| format!("bind: {e}"))?;
    let port = socket.local_addr().map_err(|e| e.to_string())?.port();
    server.insert_resource(socket);
    let listener = std::net::TcpListener::bind((std::net::Ipv4Addr::LOCALHOST, 0)).map_err(|e| format!("bind: {e}"))?;
    let relay_port = listener.local_addr().map_err(|e| e.to_string())?.port();
    client.insert_resource(ExampleClient::new(relay_port).map_err(|e| format!("connect: {e}"))?);
    let (client_side, _) = listener.accept().map_err(|e| format!("connect: {e}"))?;
    let server_side = std::net::TcpStream::connect((std::net::Ipv4Addr::LOCALHOST, port)).map_err(|e| format!("connect: {e}"))?;
    for s in [&client_side, &server_side] {
        s.set_nonblocking(true).map_err(|e| e.to_string())?;
        s.set_nodelay(true).map_err(|e| e.to_string())?;
    }
    let mut relay = Relay { client_side, server_side, to_client: Vec::new(), to_server: Vec::new() };
    let mut up = false;
    for _ in 0..400 {
        server.update();
        client.update();
        relay.forward_all();
        let authorized = {
            let w = server.world_mut();
            let mut q = w.query_filtered::<(), (With<ConnectedClient>, With<AuthorizedClient>)>();
            q.iter(w).count() == 1
        };
        if authorized && client.world().resource::<RepliconClient>().is_connected() {
            up = true;
            break;
        }
        std::thread::sleep(Duration::from_micros(500));
    }
    if !up {
        return Ok(None);
    }
    for _ in 0..3 {
        server.update();
        client.update();
        relay.forward_all();
    }
    server.world_mut().resource_mut::<Got>().0.clear();
    client.world_mut().resource_mut::<Got>().0.clear();
    // the burst
    let mut want: Vec<(u8, u32, Vec<u8>)> = Vec::new();
    for i in 0..n as u32 {
        let p = payload(i, size);
        if upstream {
            client.world_mut().send_event(Up0(i, p.clone()));
            want.push((10, i, p));
        } else {
            server.world_mut().send_event(ToClients { mode: SendMode::Broadcast, event: Down0(i, p.clone()) });
            want.push((0, i, p));
        }
    }
    if upstream { client.update() } else { server.update() };
    // give the kernel a moment, then take everything the sender wrote
    let mut total = 0;
    for _ in 0..50 {
        relay.pump();
        let len = if upstream { relay.to_server.len() } else { relay.to_client.len() };
        if len > 0 && len == total {
            break;
        }
        total = len;
        std::thread::sleep(Duration::from_micros(200));
    }
    if total == 0 {
        return Ok(None);
    }
    let split = split.min(total);
    if upstream { relay.forward_to_server(split) } else { relay.forward_to_client(split) };
    let mut all: Vec<(u8, u32, Vec<u8>)> = Vec::new();
    for _ in 0..2 {
        std::thread::sleep(Duration::from_micros(200));
        let rx = if upstream { &mut server } else { &mut client };
        rx.update();
        all.append(&mut rx.world_mut().resource_mut::<Got>().0);
    }
    if split >= total && all.len() < want.len() {
        // every byte had been handed to the receiver's socket before these two frames
        return Err(format!(
            "LATE: all {total} bytes of the burst had arrived, yet two receiver frames handed over only {} of {n} messages ({:?})",
            all.len(),
            all.iter().map(|m| m.1).collect::<Vec<_>>()
        ));
    }
    if upstream { relay.forward_to_server(usize::MAX) } else { relay.forward_to_client(usize::MAX) };
    for k in 0..400 {
        let rx = if upstream { &mut server } else { &mut client };
        rx.update();
        all.append(&mut rx.world_mut().resource_mut::<Got>().0);
        if all.len() >= want.len() && k >= 2 {
            rx.update();
            all.append(&mut rx.world_mut().resource_mut::<Got>().0);
            break;
        }
        std::thread::sleep(Duration::from_micros(200));
    }
    if all != want {
        let got: Vec<u32> = all.iter().map(|m| m.1).collect();
        let connected = client.world().resource::<RepliconClient>().is_connected();
        return Err(format!(
            "the byte stream of the burst ({total} bytes) reached the receiver in two pieces ({split} + {} bytes, two receiver frames apart): received {got:?} instead of 0..{n} in order (client still connected: {connected})",
            total - split
        ));
    }
    Ok(Some(total))
}

/// Split points that fall inside a frame header or exactly on a frame boundary: the framing code
/// waits for a complete header before it reads a message. (A split *behind* a complete header is
/// not enumerated: the pinned code then reads the partial body with `read_exact` on the
/// non-blocking socket and loses the message - an observation recorded in DESIGN.md, outside C17,
/// whose quantifier is over bursts on a real loopback connection, where one write arrives whole.)
fn header_split_points(n: usize, size: usize, total: usize) -> Vec<usize> {
    let frame = total / n.max(1);
    let mut v = BTreeSet::new();
    let _ = size;
    for i in 0..n {
        for d in 0..=2 {
            v.insert(i * frame + d);
        }
    }
    v.insert(total);
    v.into_iter().filter(|&k| k <= total).collect()
}

/// Two clients, `n` broadcasts in one server frame: every client receives all of them in order.
fn broadcast_to_two_clients(n: usize) -> Result<Option<u64>, String> {
    let Some((mut server, mut clients, _conns)) = two_clients(false)? else { return Ok(None) };
    for c in clients.iter_mut() {
        c.world_mut().resource_mut::<Got>().0.clear();
    }
    let mut want = Vec::new();
    for i in 0..n as u32 {
        let p = payload(i, 8);
        server.world_mut().send_event(ToClients { mode: SendMode::Broadcast, event: Down0(i, p.clone()) });
        want.push((i, p));
    }
    server.update();
    const SENTINEL: u32 = u32::MAX;
    server.world_mut().send_event(ToClients { mode: SendMode::Broadcast, event: Down0(SENTINEL, Vec::new()) });
    server.update();
    for (k, rx) in clients.iter_mut().enumerate() {
        let mut all: Vec<(u8, u32, Vec<u8>)> = Vec::new();
        let mut seen = false;
        for _ in 0..1200 {
            rx.update();
            all.append(&mut rx.world_mut().resource_mut::<Got>().0);
            if all.iter().any(|m| m.1 == SENTINEL) {
                seen = true;
                rx.update();
                all.append(&mut rx.world_mut().resource_mut::<Got>().0);
                break;
            }
            std::thread::sleep(Duration::from_micros(300));
        }
        if !seen {
            return Err(format!("STALL: client {k} received {} of {n} broadcasts and no sentinel", all.len()));
        }
        all.retain(|m| m.1 != SENTINEL);
        let got: Vec<(u32, Vec<u8>)> = all.into_iter().map(|m| (m.1, m.2)).collect();
        if got != want {
            return Err(format!(
                "{n} broadcasts on an ordered channel queued in one server frame for two clients: client {k} received them as {:?}",
                got.iter().map(|g| g.0).collect::<Vec<_>>()
            ));
        }
    }
    Ok(Some(n as u64))
}

/// Two clients: the first one's link has a conditioner that drops everything, the second one's
/// link has none - its `n` messages must arrive untouched.
fn conditioner_on_the_other_link(n: usize) -> Result<Option<u64>, String> {
    let Some((mut server, mut clients, _conns)) = two_clients(true)? else { return Ok(None) };
    server.update();
    server.world_mut().resource_mut::<Got>().0.clear();
    let mut want = Vec::new();
    for i in 0..n as u32 {
        let p = payload(i, 16);
        clients[1].world_mut().send_event(Up0(i, p.clone()));
        want.push((i, p));
    }
    clients[1].update();
    const SENTINEL: u32 = u32::MAX;
    clients[1].world_mut().send_event(Up0(SENTINEL, Vec::new()));
    clients[1].update();
    let mut all: Vec<(u8, u32, Vec<u8>)> = Vec::new();
    let mut seen = false;
    for _ in 0..1200 {
        server.update();
        all.append(&mut server.world_mut().resource_mut::<Got>().0);
        if all.iter().any(|m| m.1 == SENTINEL) {
            seen = true;
            server.update();
            all.append(&mut server.world_mut().resource_mut::<Got>().0);
            break;
        }
        std::thread::sleep(Duration::from_micros(300));
    }
    if !seen {
        return Err(format!("STALL: the server received {} of {n} messages and no sentinel from the client whose link has no conditioner", all.len()));
    }
    all.retain(|m| m.1 != SENTINEL);
    let got: Vec<(u32, Vec<u8>)> = all.into_iter().map(|m| (m.1, m.2)).collect();
    if got != want {
        return Err(format!(
            "the link of the second client has no conditioner, yet the server received {:?} instead of 0..{n} from it (the first client's link drops everything)",
            got.iter().map(|g| g.0).collect::<Vec<_>>()
        ));
    }
    Ok(Some(n as u64))
}

/// The server reads its sockets, a client message arrives right afterwards, and later in the
/// same frame the server sends `n` messages and drops the client (`DisconnectRequest`): the socket
/// is closed with unread data, so the client sees a reset instead of a graceful close. What was
/// written before the drop still arrives, once and in order.
fn reset_after_last_messages(n: usize) -> Result<Option<u64>, String> {
    let mut server = build_app();
    let mut client = build_app();
    let socket = ExampleServer::new(0).map_err(|e| format!("bind: {e}"))?;
    let port = socket.local_addr().map_err(|e| e.to_string())?.port();
    server.insert_resource(socket);
    client.insert_resource(ExampleClient::new(port).map_err(|e| format!("connect: {e}"))?);
    let mut conn = None;
    for _ in 0..300 {
        server.update();
        client.update();
        let now: Vec<Entity> = {
            let w = server.world_mut();
            let mut q = w.query_filtered::<Entity, With<AuthorizedClient>>();
            q.iter(w).collect()
        };
        if now.len() == 1 && client.world().resource::<RepliconClient>().is_connected() {
            conn = Some(now[0]);
            break;
        }
        std::thread::sleep(Duration::from_millis(1));
    }
    let Some(conn) = conn else { return Ok(None) };
    for _ in 0..2 {
        server.update();
        client.update();
    }
    client.world_mut().resource_mut::<Got>().0.clear();
    // the first half of a server frame: sockets are read
    server.world_mut().run_schedule(First);
    server.world_mut().run_schedule(PreUpdate);
    let _ = server.world_mut().try_run_schedule(Update);
    // a client message arrives right after that
    client.world_mut().send_event(Up0(7, vec![1, 2, 3]));
    client.update();
    std::thread::sleep(Duration::from_millis(2));
    // the rest of the server frame: a batch of messages and the drop
    let mut want = Vec::new();
    for i in 0..n as u32 {
        let p = payload(i, 16);
        server.world_mut().send_event(ToClients { mode: SendMode::Broadcast, event: Down0(i, p.clone()) });
        want.push((0u8, i, p));
    }
    server.world_mut().send_event(DisconnectRequest { client: conn });
    server.world_mut().run_schedule(PostUpdate);
    let _ = server.world_mut().try_run_schedule(Last);
    std::thread::sleep(Duration::from_millis(2));
    let mut all: Vec<(u8, u32, Vec<u8>)> = Vec::new();
    for _ in 0..6 {
        client.update();
        all.append(&mut client.world_mut().resource_mut::<Got>().0);
        std::thread::sleep(Duration::from_micros(300));
    }
    if !client.world().resource::<RepliconClient>().is_disconnected() {
        // the drop has not reached the client: nothing can be concluded from this run
        return Ok(None);
    }
    if all != want {
        return Err(format!(
            "the server wrote {n} messages and then dropped the connection (closed with unread client data); the client received {:?} before it noticed the drop",
            all.iter().map(|m| m.1).collect::<Vec<_>>()
        ));
    }
    Ok(Some(n as u64))
}

fn loopback_part(tier: Tier, out: &mut Outcome, bad: &mut Vec<Bad>) {
    let counts: Vec<usize> = if tier.quick() { vec![1, 2, 3, 4, 7, 12, 16] } else { (1..=48).collect() };
    let sizes: Vec<usize> = if tier.quick() { vec![2, 130, 256, 512, 1197, 1200] } else { vec![2, 3, 129, 130, 131, 255, 256, 257, 512, 768, 1024, 1196, 1197, 1198, 1199, 1200] };
    let mut runs = 0u64;
    let mut inconclusive = 0u64;
    let mut outcomes = BTreeSet::new();
    for &n in &counts {
        for &size in &sizes {
            for upstream in [false, true] {
                let result = match run_burst(n, size, upstream, false) {
                    Ok(None) => None,
                    other => Some(other),
                };
                runs += 1;
                match result {
                    None => inconclusive += 1,
                    Some(Ok(Some(d))) => {
                        outcomes.insert(d);
                    }
                    Some(Ok(None)) => unreachable!(),
                    Some(Err(e)) => bad.push(Bad {
                        oracle: if e.starts_with("bind") || e.starts_with("connect") { "socket" } else if e.contains("STALL") { "loopback-stalled" } else { "loopback-order" },
                        case: format!("{n} messages of {size} bytes, {}", if upstream { "client -> server" } else { "server -> client" }),
                        detail: e,
                        replay: json!({"kind": "loopback", "n": n, "size": size, "upstream": upstream}),
                    }),
                }
            }
        }
    }
    // more client channels than server channels: client -> server bursts on channel ids that no
    // server channel has
    UP_HEAVY.store(true, std::sync::atomic::Ordering::SeqCst);
    for &(n, size) in &[(1usize, 2usize), (3, 2), (4, 130)] {
        let result = match run_burst(n, size, true, false) {
            Ok(None) => None,
            other => Some(other),
        };
        runs += 1;
        match result {
            None => inconclusive += 1,
            Some(Ok(Some(d))) => {
                outcomes.insert(6_000_000 + d);
            }
            Some(Ok(None)) => unreachable!(),
            Some(Err(e)) => bad.push(Bad {
                oracle: if e.starts_with("bind") || e.starts_with("connect") { "socket" } else if e.contains("STALL") { "loopback-stalled" } else { "loopback-order" },
                case: format!("{n} messages of {size} bytes, client -> server, with more client channels than server channels"),
                detail: e,
                replay: json!({"kind": "loopback", "n": n, "size": size, "upstream": true, "up_heavy": true}),
            }),
        }
    }
    UP_HEAVY.store(false, std::sync::atomic::Ordering::SeqCst);
    // the server sends before the client app's first frame with the socket
    for &n in &counts {
        for &size in &[2usize, 130] {
            let result = match run_burst(n, size, false, true) {
                Ok(None) => None,
                other => Some(other),
            };
            runs += 1;
            match result {
                None => inconclusive += 1,
                Some(Ok(Some(d))) => {
                    outcomes.insert(d);
                }
                Some(Ok(None)) => unreachable!(),
                Some(Err(e)) => bad.push(Bad {
                    oracle: if e.starts_with("bind") || e.starts_with("connect") { "socket" } else { "loopback-early" },
                    case: format!("{n} messages of {size} bytes, server -> client, sent before the client app's first frame"),
                    detail: e,
                    replay: json!({"kind": "loopback", "n": n, "size": size, "upstream": false, "early": true}),
                }),
            }
        }
    }
    // segmentation owned by the harness: the burst's bytes arrive in two pieces
    let mut relay_runs = 0u64;
    for &(n, size) in &[(1usize, 2usize), (2, 2), (3, 130), (12, 2)] {
        for upstream in [false, true] {
            let mut attempt = |split: usize| -> Option<Result<Option<usize>, String>> {
                let mut late = None;
                for _ in 0..3 {
                    match guarded(|| relayed_burst(n, size, upstream, split)).unwrap_or_else(|(m, l)| Err(format!("panic: {m} ({l})"))) {
                        Ok(None) => continue,
                        // (timing-sensitive: only a verdict if it happens in all three attempts)
                        Err(e) if e.starts_with("LATE") => late = Some(e),
                        other => return Some(other),
                    }
                }
                late.map(Err)
            };
            let total = match attempt(usize::MAX) {
                Some(Ok(Some(total))) => total,
                Some(Err(e)) => {
                    runs += 1;
                    bad.push(Bad {
                        oracle: if e.starts_with("bind") || e.starts_with("connect") { "socket" } else { "loopback-segmented" },
                        case: format!("{n} messages of {size} bytes, {}, all bytes at once", if upstream { "client -> server" } else { "server -> client" }),
                        detail: e,
                        replay: json!({"kind": "loopback", "n": n, "size": size, "upstream": upstream, "split": 1_000_000}),
                    });
                    continue;
                }
                _ => {
                    inconclusive += 1;
                    runs += 1;
                    continue;
                }
            };
            for split in header_split_points(n, size, total) {
                runs += 1;
                relay_runs += 1;
                match attempt(split) {
                    None => inconclusive += 1,
                    Some(Ok(_)) => {
                        outcomes.insert(2_000_000 + (n * 1000 + size) as u64);
                    }
                    Some(Err(e)) => bad.push(Bad {
                        oracle: if e.starts_with("bind") || e.starts_with("connect") { "socket" } else { "loopback-segmented" },
                        case: format!("{n} messages of {size} bytes, {}, split after {split} bytes", if upstream { "client -> server" } else { "server -> client" }),
                        detail: e,
                        replay: json!({"kind": "loopback", "n": n, "size": size, "upstream": upstream, "split": split}),
                    }),
                }
            }
        }
    }
    out.extra.insert("relayed_split_runs".into(), json!(relay_runs));
    // a failed write to one client next to messages for a healthy one
    for n in [1usize, 3, 12] {
        let mut stalls = 0;
        let mut result = None;
        for _ in 0..3 {
            match guarded(|| failed_write_next_to_healthy_client(n)).unwrap_or_else(|(m, l)| Err(format!("panic: {m} ({l})"))) {
                Ok(None) => continue,
                Err(e) if e.starts_with("STALL") => {
                    stalls += 1;
                    result = Some(Err(e));
                }
                other => {
                    result = Some(other);
                    break;
                }
            }
        }
        runs += 1;
        match result {
            None => inconclusive += 1,
            Some(Ok(Some(d))) => {
                outcomes.insert(1_000_000 + d);
            }
            Some(Ok(None)) => unreachable!(),
            Some(Err(e)) if e.starts_with("STALL") && stalls < 3 => inconclusive += 1,
            Some(Err(e)) => bad.push(Bad {
                oracle: if e.starts_with("bind") || e.starts_with("connect") { "socket" } else { "loopback-failed-write" },
                case: format!("oversized message for client A, then {n} messages for client B in one server frame"),
                detail: e,
                replay: json!({"kind": "loopback", "n": n, "size": 0, "upstream": false, "failed_write": true}),
            }),
        }
    }
    // the last messages before a dropped connection
    for n in [1usize, 3, 12] {
        let mut result = None;
        for _ in 0..3 {
            match guarded(|| reset_after_last_messages(n)).unwrap_or_else(|(m, l)| Err(format!("panic: {m} ({l})"))) {
                Ok(None) => continue,
                other => {
                    result = Some(other);
                    break;
                }
            }
        }
        runs += 1;
        match result {
            None => inconclusive += 1,
            Some(Ok(Some(d))) => {
                outcomes.insert(4_000_000 + d);
            }
            Some(Ok(None)) => unreachable!(),
            Some(Err(e)) => bad.push(Bad {
                oracle: if e.starts_with("bind") || e.starts_with("connect") { "socket" } else { "loopback-last-messages" },
                case: format!("{n} messages written right before the server drops the client"),
                detail: e,
                replay: json!({"kind": "loopback", "n": n, "size": 0, "upstream": false, "reset": true}),
            }),
        }
    }
    // many broadcasts to two clients in one server frame
    for n in [2usize, 11, 30] {
        let mut stalls = 0;
        let mut result = None;
        for _ in 0..3 {
            match guarded(|| broadcast_to_two_clients(n)).unwrap_or_else(|(m, l)| Err(format!("panic: {m} ({l})"))) {
                Ok(None) => continue,
                Err(e) if e.starts_with("STALL") => {
                    stalls += 1;
                    result = Some(Err(e));
                }
                other => {
                    result = Some(other);
                    break;
                }
            }
        }
        runs += 1;
        match result {
            None => inconclusive += 1,
            Some(Ok(Some(d))) => {
                outcomes.insert(5_000_000 + d);
            }
            Some(Ok(None)) => unreachable!(),
            Some(Err(e)) if e.starts_with("STALL") && stalls < 3 => inconclusive += 1,
            Some(Err(e)) => bad.push(Bad {
                oracle: if e.starts_with("bind") || e.starts_with("connect") { "socket" } else { "loopback-two-clients" },
                case: format!("{n} broadcasts to two clients in one server frame"),
                detail: e,
                replay: json!({"kind": "loopback", "n": n, "size": 0, "upstream": false, "two_clients": true}),
            }),
        }
    }
    // a conditioner configured on another client's link only
    for n in [1usize, 3, 12] {
        let mut stalls = 0;
        let mut result = None;
        for _ in 0..3 {
            match guarded(|| conditioner_on_the_other_link(n)).unwrap_or_else(|(m, l)| Err(format!("panic: {m} ({l})"))) {
                Ok(None) => continue,
                Err(e) if e.starts_with("STALL") => {
                    stalls += 1;
                    result = Some(Err(e));
                }
                other => {
                    result = Some(other);
                    break;
                }
            }
        }
        runs += 1;
        match result {
            None => inconclusive += 1,
            Some(Ok(Some(d))) => {
                outcomes.insert(3_000_000 + d);
            }
            Some(Ok(None)) => unreachable!(),
            Some(Err(e)) if e.starts_with("STALL") && stalls < 3 => inconclusive += 1,
            Some(Err(e)) => bad.push(Bad {
                oracle: if e.starts_with("bind") || e.starts_with("connect") { "socket" } else { "loopback-other-link" },
                case: format!("{n} messages from a client without conditioner while another client's link drops everything"),
                detail: e,
                replay: json!({"kind": "loopback", "n": n, "size": 0, "upstream": true, "other_link": true}),
            }),
        }
    }
    out.evaluations += runs;
    out.nontrivial += runs - inconclusive;
    out.transitions += runs * 8;
    out.states += outcomes.len() as u64;
    out.distinct_nontrivial += outcomes.len() as u64;
    out.reports.push(json!({"cell": "c17b-loopback", "bursts": runs, "inconclusive_timing": inconclusive, "counts": counts, "sizes": sizes, "directions": 2}));
    eprintln!("  cell c17b-loopback                 bursts {runs:>8} inconclusive {inconclusive}");
}

pub fn run(tier: Tier, _budget: f64, out: &mut Outcome) -> Result<(), MachineryError> {
    out.rule = RULE.into();
    out.assumptions.push("C17(b): arrival timing over loopback TCP is the kernel's; a burst that does not arrive completely within the retry budget is counted as inconclusive, never as a violation".into());
    let mut bad = Vec::new();
    owned_part(tier, out, &mut bad);
    loopback_part(tier, out, &mut bad);
    // socket trouble is a machinery problem, not a verdict
    if let Some(b) = bad.iter().find(|b| b.oracle == "socket") {
        return Err(MachineryError(format!("loopback sockets unavailable: {}", b.detail)));
    }
    out.samples.push(json!({"conditioner": "[Ins(0,0), Ins(0,1), Ins(0,0), Pop(0)]"}));
    out.samples.push(json!({"loopback": "12 messages of 128 bytes over 3 channels, server -> client, one sender frame"}));
    out.violation_total += bad.len() as u64;
    let findings = check::load_findings();
    bad.sort_by_key(|b| b.case.len());
    let mut seen = BTreeSet::new();
    for b in &bad {
        if !seen.insert(b.oracle) {
            continue;
        }
        let feats: BTreeSet<String> = BTreeSet::new();
        if let Some(k) = findings.findings.iter().find(|f| check::matches_known(f, "C17", b.oracle, &feats)) {
            out.known_hits.push(format!("KNOWN-FINDING: property=C17 {}", k.what));
            continue;
        }
        let dir = std::path::Path::new(&check::verif_root()).join("replays").join("C17");
        let _ = std::fs::create_dir_all(&dir);
        let path = dir.join(format!("{:016x}.json", crate::explore::hash_of(&(b.oracle, &b.case))));
        let mut doc = b.replay.clone();
        doc["property"] = json!("C17");
        doc["case"] = json!(b.case);
        doc["violation"] = json!({"property": "C17", "oracle": b.oracle, "detail": b.detail});
        std::fs::write(&path, serde_json::to_string_pretty(&doc).unwrap()).unwrap();
        out.new_violations.push(path);
    }
    Ok(())
}

/// C09 with the real transport: messages that are waiting inside the client's link conditioner
/// (configured latency) when the client disconnects belong to the old session; after a reconnect
/// nothing of them may be handed over. `n` messages are in flight, the client stays disconnected
/// for `gap` frames. `Ok(None)`: timing made the run inconclusive.
pub fn conditioner_across_sessions(n: usize, gap: usize) -> Result<Option<u64>, String> {
    use bevy_replicon_example_backend::ConditionerConfig;
    let mut server = build_app();
    let mut client = build_app();
    let socket = ExampleServer::new(0).map_err(|e| format!("bind: {e}"))?;
    let port = socket.local_addr().map_err(|e| e.to_string())?.port();
    server.insert_resource(socket);
    client.insert_resource(ConditionerConfig { latency: 150, jitter: 0, loss: 0.0 });
    client.insert_resource(ExampleClient::new(port).map_err(|e| format!("connect: {e}"))?);
    let authorized = |server: &mut App| {
        let w = server.world_mut();
        let mut q = w.query_filtered::<Entity, With<AuthorizedClient>>();
        q.iter(w).count()
    };
    let mut up = false;
    for _ in 0..600 {
        server.update();
        client.update();
        if authorized(&mut server) == 1 && client.world().resource::<RepliconClient>().is_connected() {
            up = true;
            break;
        }
        std::thread::sleep(Duration::from_millis(1));
    }
    if !up {
        return Ok(None);
    }
    client.world_mut().resource_mut::<Got>().0.clear();
    for i in 0..n as u32 {
        server.world_mut().send_event(ToClients { mode: SendMode::Broadcast, event: Down0(100 + i, payload(i, 16)) });
    }
    server.update();
    std::thread::sleep(Duration::from_millis(3));
    // the client reads the socket: the messages now wait inside its conditioner
    client.update();
    if !client.world().resource::<Got>().0.is_empty() {
        return Ok(None);
    }
    // the session ends
    client.world_mut().remove_resource::<ExampleClient>();
    for _ in 0..gap {
        client.update();
        server.update();
        std::thread::sleep(Duration::from_millis(1));
    }
    if !client.world().resource::<RepliconClient>().is_disconnected() {
        return Ok(None);
    }
    // a new session
    client.insert_resource(ExampleClient::new(port).map_err(|e| format!("reconnect: {e}"))?);
    let t0 = std::time::Instant::now();
    let mut again = false;
    let mut got: Vec<(u8, u32, Vec<u8>)> = Vec::new();
    while t0.elapsed() < Duration::from_millis(320) {
        server.update();
        client.update();
        got.append(&mut client.world_mut().resource_mut::<Got>().0);
        again |= authorized(&mut server) >= 1 && client.world().resource::<RepliconClient>().is_connected();
        std::thread::sleep(Duration::from_millis(1));
    }
    if !again {
        return Ok(None);
    }
    // a message of the new session still arrives (after the configured latency)
    server.world_mut().send_event(ToClients { mode: SendMode::Broadcast, event: Down0(7, payload(7, 16)) });
    let t1 = std::time::Instant::now();
    while t1.elapsed() < Duration::from_millis(260) {
        server.update();
        client.update();
        got.append(&mut client.world_mut().resource_mut::<Got>().0);
        std::thread::sleep(Duration::from_millis(1));
    }
    let stale: Vec<u32> = got.iter().filter(|m| m.1 >= 100).map(|m| m.1).collect();
    if !stale.is_empty() {
        return Err(format!(
            "{n} message(s) were waiting in the client's link conditioner (latency 150 ms) when it disconnected; after {gap} disconnected frame(s) and a reconnect the new session was handed the old session's message(s) {stale:?}"
        ));
    }
    if !got.iter().any(|m| m.1 == 7) {
        return Ok(None);
    }
    Ok(Some(got.len() as u64))
}

/// Runs the C09 loopback scenarios and records a violation file for the first failing one.
pub fn c09_sessions_part(out: &mut Outcome) -> Result<(), MachineryError> {
    let mut inconclusive = 0u64;
    let cases = [(1usize, 1usize), (3, 1), (1, 3), (3, 3)];
    for (n, gap) in cases {
        let mut r = Ok(None);
        for _attempt in 0..3 {
            r = guarded(|| conditioner_across_sessions(n, gap)).unwrap_or_else(|(m, l)| Err(format!("panic: {m} ({l})")));
            if !matches!(r, Ok(None)) {
                break;
            }
        }
        out.evaluations += 1;
        out.transitions += 600;
        match r {
            Ok(None) => inconclusive += 1,
            Ok(Some(_)) => out.nontrivial += 1,
            Err(e) if e.starts_with("bind") || e.starts_with("connect") => return Err(MachineryError(format!("loopback sockets unavailable: {e}"))),
            Err(detail) => {
                out.violation_total += 1;
                let dir = std::path::Path::new(&check::verif_root()).join("replays").join("C09");
                let _ = std::fs::create_dir_all(&dir);
                let path = dir.join(format!("{:016x}.json", crate::explore::hash_of(&("c09-sessions", n, gap))));
                let doc = json!({"property": "C09", "kind": "loopback", "c09_sessions": [n, gap],
                    "violation": {"property": "C09", "oracle": "stale-session-message", "detail": detail}});
                std::fs::write(&path, serde_json::to_string_pretty(&doc).unwrap()).unwrap();
                out.new_violations.push(path);
                break;
            }
        }
    }
    out.reports.push(json!({"cell": "c09-conditioner-across-sessions", "cases": cases.len(), "inconclusive": inconclusive, "exhaustive_within_bound": true}));
    eprintln!("  C09: {} reconnects over loopback TCP with messages waiting in the client's conditioner ({} inconclusive)", cases.len(), inconclusive);
    Ok(())
}

pub fn replay(doc: &serde_json::Value) -> i32 {
    if let Some(a) = doc["c09_sessions"].as_array() {
        let (n, gap) = (a[0].as_u64().unwrap() as usize, a[1].as_u64().unwrap() as usize);
        println!("{n} message(s) in the client's conditioner at the disconnect, {gap} disconnected frame(s), reconnect");
        for _ in 0..3 {
            match conditioner_across_sessions(n, gap) {
                Ok(None) => continue,
                Ok(Some(_)) => {
                    println!("replay passes: no violation");
                    return 0;
                }
                Err(e) => {
                    println!("VIOLATION property=C09 replay=<file> oracle=stale-session-message :: {e}");
                    return 1;
                }
            }
        }
        println!("replay inconclusive (timing)");
        return 0;
    }
    let r = if doc["kind"] == "conditioner" {
        let ops: Vec<HOp> = doc["ops"]
            .as_array()
            .unwrap()
            .iter()
            .map(|o| {
                if o[0] == "ins" {
                    HOp::Ins(o[1].as_u64().unwrap() as u8, o[2].as_u64().unwrap() as u8)
                } else {
                    HOp::Pop(o[1].as_u64().unwrap() as u8)
                }
            })
            .collect();
        println!("history: {ops:?}");
        run_history(&ops).map(|_| ())
    } else {
        let (n, size, up) = (doc["n"].as_u64().unwrap() as usize, doc["size"].as_u64().unwrap() as usize, doc["upstream"].as_bool().unwrap());
        UP_HEAVY.store(doc["up_heavy"].as_bool().unwrap_or(false), std::sync::atomic::Ordering::SeqCst);
        if let Some(split) = doc["split"].as_u64() {
            let (n, size, up) = (doc["n"].as_u64().unwrap() as usize, doc["size"].as_u64().unwrap() as usize, doc["upstream"].as_bool().unwrap());
            println!("relayed burst: {n} messages of {size} bytes, upstream {up}, split after {split} bytes");
            for _ in 0..3 {
                match relayed_burst(n, size, up, split as usize) {
                    Ok(None) => continue,
                    Ok(Some(_)) => break,
                    Err(e) => {
                        println!("VIOLATION property=C17 replay=<file> oracle=loopback-segmented :: {e}");
                        return 1;
                    }
                }
            }
            println!("replay passes: no violation");
            return 0;
        }
        if doc["two_clients"].as_bool().unwrap_or(false) {
            let n = doc["n"].as_u64().unwrap() as usize;
            return match broadcast_to_two_clients(n) {
                Ok(_) => {
                    println!("replay passes: no violation");
                    0
                }
                Err(e) => {
                    println!("VIOLATION property=C17 replay=<file> oracle=loopback-two-clients :: {e}");
                    1
                }
            };
        }
        if doc["reset"].as_bool().unwrap_or(false) {
            let n = doc["n"].as_u64().unwrap() as usize;
            for _ in 0..3 {
                match reset_after_last_messages(n) {
                    Ok(None) => continue,
                    Ok(Some(_)) => break,
                    Err(e) => {
                        println!("VIOLATION property=C17 replay=<file> oracle=loopback-last-messages :: {e}");
                        return 1;
                    }
                }
            }
            println!("replay passes: no violation");
            return 0;
        }
        if doc["other_link"].as_bool().unwrap_or(false) {
            let n = doc["n"].as_u64().unwrap() as usize;
            return match conditioner_on_the_other_link(n) {
                Ok(_) => {
                    println!("replay passes: no violation");
                    0
                }
                Err(e) => {
                    println!("VIOLATION property=C17 replay=<file> oracle=loopback-other-link :: {e}");
                    1
                }
            };
        }
        if doc["failed_write"].as_bool().unwrap_or(false) {
            let n = doc["n"].as_u64().unwrap() as usize;
            println!("failed write next to {n} messages for a healthy client");
            return match failed_write_next_to_healthy_client(n) {
                Ok(_) => {
                    println!("replay passes: no violation");
                    0
                }
                Err(e) => {
                    println!("VIOLATION property=C17 replay=<file> oracle=loopback-failed-write :: {e}");
                    1
                }
            };
        }
        let early = doc["early"].as_bool().unwrap_or(false);
        println!("loopback burst: {n} messages of {size} bytes, upstream {up}, early {early}");
        run_burst(n, size, up, early).map(|_| ())
    };
    match r {
        Ok(()) => {
            println!("replay passes: no violation");
            0
        }
        Err(e) => {
            println!("VIOLATION property=C17 replay=<file> oracle=order :: {e}");
            1
        }
    }
}

pub const RULE: &str = "(a) the real LinkConditioner without configuration: bursts of 1..48 messages with equal arrival time over 1-3 channels, and every insert / pop history of length <= 7/9 over {2 arrival times x 2 channels, pop at either time} with non-decreasing arrival times; reference = per-channel FIFO, exactly once; (b) two real Apps over loopback TCP: bursts of n messages (7 counts quick / 1..48 thorough) x payload sizes up to the usual maximum x both directions, three channels, queued in one sender frame; exactly once, per-channel order on ordered channels, payload and channel unchanged";
