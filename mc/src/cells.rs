//! Library of base cells shared by the replication properties (C01, C02, C03, C08, C09, C16).
//! A property picks cells, switches its own oracles on and chooses bounds per tier.

use crate::{
    repl::{Env, MutMenu, Oracles, ReplCell},
    sim::*,
};

pub const M_A: u16 = 1 << TA;
pub const M_B: u16 = 1 << TB;
pub const M_P: u16 = 1 << TP;
pub const M_O: u16 = 1 << TO;
pub const AB: u16 = M_A | M_B;

pub fn base(name: &str, property: &'static str) -> ReplCell {
    ReplCell {
        name: format!("{}-{}", property.to_lowercase(), name),
        property,
        cfg: Cfg::default(),
        init: vec![Op::Spawn(0, AB)],
        alphabet: vec![Op::Nop],
        ops_per_round: 1,
        rounds: 3,
        tick_choice: true,
        env: Env::full(),
        oracles: Oracles::default(),
        closure_rounds: 6,
        junk_acks: false,
        straggler_acks: false,
        split_stage: false,
    }
}

/// One settled entity e1{A,B}; lifecycle, insert/remove/mutate, marker toggle, second entity.
pub fn single(property: &'static str) -> ReplCell {
    let mut c = base("single", property);
    c.alphabet = vec![
        Op::Nop,
        Op::Mut(0, TA),
        Op::Mut(0, TB),
        Op::Rm(0, TA),
        Op::Rm(0, TB),
        Op::Ins(0, TB),
        Op::Spawn(1, M_B),
        Op::Despawn(0),
        Op::Unmark(0),
        Op::Mark(0),
        Op::Spawn(0, M_A),
    ];
    c
}

/// Two settled entities; operations on both, so that one entity's traffic interacts with the other's.
pub fn two(property: &'static str) -> ReplCell {
    let mut c = base("two", property);
    c.init = vec![Op::Spawn(0, AB), Op::Spawn(1, M_A)];
    c.alphabet = vec![
        Op::Nop,
        Op::Mut(0, TA),
        Op::Mut(1, TA),
        Op::Rm(0, TB),
        Op::Ins(1, TB),
        Op::Despawn(1),
        Op::Spawn(2, M_A),
        Op::Unmark(1),
        Op::Mark(1),
    ];
    c
}

/// Mutation-heavy alphabet on a settled entity with a few structural operations.
pub fn mutations(property: &'static str) -> ReplCell {
    let mut c = base("mut", property);
    c.alphabet = vec![
        Op::Nop,
        Op::Mut(0, TA),
        Op::Mut(0, TB),
        Op::Rm(0, TB),
        Op::Ins(0, TB),
        Op::Spawn(1, M_A),
        Op::Mut(1, TA),
    ];
    c
}

/// Visibility under a list policy with one or two clients.
pub fn visibility(property: &'static str, vis: Vis, clients: usize) -> ReplCell {
    let tag = match vis {
        Vis::Blacklist => "black",
        Vis::Whitelist => "white",
        Vis::All => "all",
    };
    let mut c = base(&format!("vis-{tag}-{clients}c"), property);
    c.cfg.vis = vis;
    c.cfg.clients = vec![1200; clients];
    c.init = vec![Op::Spawn(0, AB)];
    if vis == Vis::Whitelist {
        for cl in 0..clients {
            c.init.push(Op::Vis(cl as u8, 0, true));
        }
    }
    c.alphabet = vec![
        Op::Nop,
        Op::Vis(0, 0, false),
        Op::Vis(0, 0, true),
        Op::Mut(0, TA),
        Op::Rm(0, TB),
        Op::Ins(0, TB),
        Op::Despawn(0),
        Op::Unmark(0),
        Op::Mark(0),
        Op::Spawn(1, M_A),
        Op::Vis(0, 1, true),
        Op::Vis(0, 1, false),
    ];
    c.env = Env {
        hold_acks: false,
        hold_updates: 1,
        mutations: MutMenu::Hold,
        leftover_choice: false,
        lossy: false,
    };
    c
}

/// Periodic and send-once components next to a continuously replicated one.
pub fn rates(property: &'static str) -> ReplCell {
    let mut c = base("rates", property);
    c.cfg.with_p = true;
    c.cfg.with_o = true;
    c.init = vec![Op::Spawn(0, M_A | M_P | M_O)];
    c.alphabet = vec![
        Op::Nop,
        Op::Mut(0, TP),
        Op::Mut(0, TA),
        Op::Mut(0, TO),
        Op::Rm(0, TP),
        Op::Ins(0, TP),
        Op::Ins(0, TB),
        Op::Rm(0, TO),
        Op::Ins(0, TO),
    ];
    c.closure_rounds = 8;
    c
}

/// Mapped references between entities, including references to entities spawned in the same tick.
pub fn refs(property: &'static str) -> ReplCell {
    let mut c = base("refs", property);
    c.cfg.with_r = true;
    c.init = vec![Op::Spawn(0, M_A)];
    c.alphabet = vec![
        Op::Nop,
        Op::Spawn(1, M_A),
        Op::InsRef(0, 1),
        Op::InsRef(1, 0),
        Op::Mut(0, TR),
        Op::Rm(0, TR),
        Op::Mut(1, TA),
        Op::Despawn(1),
        Op::Spawn(2, M_B),
        Op::InsRef(1, 2),
    ];
    c
}

/// `refs` with the two worlds' entity ids shifted against each other by one: the client's replica
/// of each entity has the very bits of another server entity.
pub fn refs_shifted(property: &'static str) -> ReplCell {
    let mut c = refs(property);
    c.name = format!("{}-refs-shifted", property.to_lowercase());
    c.init = vec![Op::Spawn(1, M_A), Op::Spawn(0, M_A), Op::AlignNextId(0, 0)];
    c.alphabet = vec![
        Op::Nop,
        Op::InsRef(0, 1),
        Op::InsRef(1, 0),
        Op::Mut(0, TR),
        Op::Mut(1, TR),
        Op::Rm(0, TR),
        Op::Spawn(2, M_B),
        Op::InsRef(1, 2),
        Op::InsRef(2, 0),
    ];
    c
}

/// Parent/child relationships with synchronized replication of related entities.
pub fn hierarchy(property: &'static str) -> ReplCell {
    let mut c = base("hier", property);
    c.cfg.with_child = true;
    c.cfg.sync_rel = true;
    c.init = vec![Op::Spawn(0, M_A), Op::Spawn(1, M_A)];
    c.alphabet = vec![
        Op::Nop,
        Op::SetParent(1, 0),
        Op::ClearParent(1),
        Op::Mut(0, TA),
        Op::Mut(1, TA),
        Op::Spawn(2, M_A),
        Op::SetParent(2, 0),
        Op::SetParent(2, 1),
        Op::Despawn(0),
        Op::Unmark(1),
        Op::Mark(1),
        Op::SpawnChild(3, M_A, 0),
        Op::ClearParent(3),
    ];
    c
}

/// Other tick wirings: every frame is a tick / ticks from a timer.
pub fn wiring(property: &'static str, tick: TickWiring, dt_ms: u64) -> ReplCell {
    let mut c = single(property);
    c.name = format!(
        "{}-wiring-{}",
        property.to_lowercase(),
        match tick {
            TickWiring::EveryFrame => "everyframe".to_string(),
            TickWiring::MaxTickRate(hz) => format!("max{hz}hz-dt{dt_ms}"),
            TickWiring::Manual => "manual".to_string(),
        }
    );
    c.cfg.tick = tick;
    c.cfg.dt_ms = dt_ms;
    c.tick_choice = false;
    c
}

/// Two clients with different maximum message sizes and independent schedules.
pub fn two_clients(property: &'static str) -> ReplCell {
    let mut c = base("2c", property);
    c.cfg.clients = vec![1200, 64];
    c.alphabet = vec![
        Op::Nop,
        Op::Mut(0, TA),
        Op::Rm(0, TB),
        Op::Ins(0, TB),
        Op::Spawn(1, M_A),
        Op::Despawn(0),
    ];
    c.env = Env {
        hold_acks: true,
        hold_updates: 1,
        mutations: MutMenu::Hold,
        leftover_choice: true,
        lossy: false,
    };
    c
}

/// Tiny maximum message size: every entity travels in its own mutate message, and the link is
/// lossy (mutate messages not delivered in a step are lost for good).
pub fn split_lossy(property: &'static str) -> ReplCell {
    let mut c = base("split-lossy", property);
    c.cfg.clients = vec![16];
    c.init = vec![Op::Spawn(0, M_A), Op::Spawn(1, M_A), Op::Spawn(2, M_A)];
    c.alphabet = vec![Op::Nop, Op::Mut(0, TA), Op::Mut(1, TA), Op::Mut(2, TA)];
    c.env = Env {
        hold_acks: true,
        hold_updates: 0,
        mutations: MutMenu::Full,
        leftover_choice: true,
        lossy: true,
    };
    c
}

/// Entities without any replicated component under a list policy: visibility granted in a
/// later tick than the spawn, components inserted later.
pub fn vis_empty(property: &'static str, vis: Vis) -> ReplCell {
    let tag = if vis == Vis::Blacklist { "black" } else { "white" };
    let mut c = base(&format!("vis-empty-{tag}"), property);
    c.cfg.vis = vis;
    c.init = vec![Op::Spawn(0, AB)];
    if vis == Vis::Whitelist {
        c.init.push(Op::Vis(0, 0, true));
    }
    c.alphabet = vec![
        Op::Nop,
        Op::Spawn(1, 0),
        Op::Vis(0, 1, true),
        Op::Vis(0, 1, false),
        Op::Ins(1, TA),
        Op::Despawn(1),
        Op::Unmark(1),
        Op::Mark(1),
    ];
    c.env = Env {
        hold_acks: false,
        hold_updates: 1,
        mutations: MutMenu::Hold,
        leftover_choice: false,
        lossy: false,
    };
    c
}

/// Two operations per round: same-frame combinations (remove + insert, despawn + respawn in the
/// same slot, hide + despawn, ...).
pub fn same_frame(property: &'static str) -> ReplCell {
    let mut c = base("same-frame", property);
    c.ops_per_round = 2;
    c.alphabet = vec![
        Op::Nop,
        Op::Mut(0, TA),
        Op::Rm(0, TB),
        Op::Ins(0, TB),
        Op::Despawn(0),
        Op::Spawn(0, M_A),
        Op::Unmark(0),
        Op::Mark(0),
    ];
    c.rounds = 2;
    c
}

/// Three clients under a blacklist with different visibility, sizes and schedules.
pub fn three_clients(property: &'static str) -> ReplCell {
    let mut c = base("3c", property);
    c.cfg.vis = Vis::Blacklist;
    c.cfg.clients = vec![1200, 64, 1200];
    c.alphabet = vec![
        Op::Nop,
        Op::Mut(0, TA),
        Op::Rm(0, TB),
        Op::Vis(1, 0, false),
        Op::Vis(1, 0, true),
        Op::Despawn(0),
        Op::Spawn(1, M_A),
    ];
    c.env = Env {
        hold_acks: false,
        hold_updates: 1,
        mutations: MutMenu::Hold,
        leftover_choice: false,
        lossy: false,
    };
    c
}

/// The server tick crosses `u32::MAX -> 0` during the history: mutations and structural changes
/// of the same entities on both sides of the wrap point.
pub fn wrap(property: &'static str, back: u32) -> ReplCell {
    let mut c = base(&format!("wrap-{back}"), property);
    c.cfg.tick_offset = u32::MAX - back;
    c.init = vec![Op::Spawn(0, AB), Op::Spawn(1, M_A)];
    c.alphabet = vec![
        Op::Nop,
        Op::Mut(0, TA),
        Op::Mut(0, TB),
        Op::Rm(0, TB),
        Op::Ins(0, TB),
        Op::Mut(1, TA),
        Op::Despawn(1),
    ];
    c.tick_choice = false;
    c.env = Env {
        hold_acks: true,
        hold_updates: 1,
        mutations: MutMenu::Full,
        leftover_choice: false,
        lossy: false,
    };
    c
}

/// Several despawns in one tick under a list policy, with hidden entities between them: the
/// despawn records of one client must not be merged across entities it never saw.
pub fn vis_despawns(property: &'static str, vis: Vis) -> ReplCell {
    let tag = if vis == Vis::Blacklist { "black" } else { "white" };
    let mut c = base(&format!("vis-despawns-{tag}"), property);
    c.cfg.vis = vis;
    c.cfg.clients = vec![1200, 1200];
    c.init = vec![Op::Spawn(0, M_A), Op::Spawn(1, M_A), Op::Spawn(2, M_A), Op::Spawn(3, M_A)];
    if vis == Vis::Whitelist {
        for cl in 0..2u8 {
            for e in 0..4u8 {
                if !(cl == 0 && e == 1) {
                    c.init.push(Op::Vis(cl, e, true));
                }
            }
        }
    } else {
        c.init.push(Op::Vis(0, 1, false));
    }
    c.ops_per_round = 2;
    c.alphabet = vec![
        Op::Nop,
        Op::Despawn(0),
        Op::Despawn(1),
        Op::Despawn(2),
        Op::Ins(3, TB),
        Op::Vis(0, 3, false),
        Op::Vis(1, 2, false),
    ];
    c.rounds = 2;
    c.env = Env {
        hold_acks: false,
        hold_updates: 1,
        mutations: MutMenu::Hold,
        leftover_choice: false,
        lossy: false,
    };
    c
}

/// Three operations per round on two entities: one entity's insertion / removal / mutation in the
/// same tick as another entity's mutation of a different component.
pub fn same_frame3(property: &'static str) -> ReplCell {
    let mut c = base("same-frame3", property);
    c.init = vec![Op::Spawn(0, M_A), Op::Spawn(1, AB)];
    c.ops_per_round = 3;
    c.alphabet = vec![
        Op::Nop,
        Op::Mut(0, TA),
        Op::Ins(0, TB),
        Op::Mut(1, TB),
        Op::Mut(1, TA),
        Op::Rm(1, TB),
    ];
    c.rounds = 1;
    c.env = Env {
        hold_acks: false,
        hold_updates: 1,
        mutations: MutMenu::Hold,
        leftover_choice: false,
        lossy: false,
    };
    c
}

/// `insert` on top of an existing component (reported by Bevy as an addition, so it travels in the
/// update message) mixed with plain mutations, removals and insertions of the same components.
pub fn reinsert(property: &'static str) -> ReplCell {
    let mut c = base("reinsert", property);
    c.init = vec![Op::Spawn(0, AB), Op::Spawn(1, M_A)];
    c.alphabet = vec![
        Op::Nop,
        Op::Mut(0, TA),
        Op::ReIns(0, TA),
        Op::ReIns(0, TB),
        Op::Mut(0, TB),
        Op::Rm(0, TB),
        Op::Ins(0, TB),
        Op::ReIns(1, TA),
    ];
    c
}

/// Entities with three continuously replicated components (A, B, Big): several of them pending
/// as mutations while another is inserted or removed in the same tick, with one or two clients
/// whose acknowledgement state differs.
pub fn three_comps(property: &'static str, clients: usize) -> ReplCell {
    let mut c = base(&format!("three-comps-{clients}c"), property);
    c.cfg.with_big = true;
    c.cfg.clients = vec![1200; clients];
    c.init = vec![Op::Spawn(0, AB), Op::InsBig(0, 8), Op::Spawn(1, M_A)];
    c.ops_per_round = 2;
    c.alphabet = vec![
        Op::Nop,
        Op::Mut(0, TA),
        Op::Mut(0, TB),
        Op::MutBig(0, 8),
        Op::Rm(0, TB),
        Op::Ins(0, TB),
        Op::Mut(1, TA),
    ];
    c.rounds = 2;
    c.tick_choice = false;
    c.env = Env {
        hold_acks: true,
        hold_updates: 1,
        mutations: MutMenu::Hold,
        leftover_choice: false,
        lossy: false,
    };
    c
}

/// Two entities in the same archetype (e1 first) under a list policy; e2's visibility for the
/// client is gained / lost in the same tick in which its neighbour e1 is mutated.
pub fn vis_neighbour(property: &'static str, vis: Vis) -> ReplCell {
    let tag = if vis == Vis::Blacklist { "black" } else { "white" };
    let mut c = base(&format!("vis-neighbour-{tag}"), property);
    c.cfg.vis = vis;
    c.init = vec![Op::Spawn(0, M_A), Op::Spawn(1, M_A), Op::Spawn(2, M_A)];
    if vis == Vis::Whitelist {
        c.init.push(Op::Vis(0, 0, true));
        c.init.push(Op::Vis(0, 2, true));
    } else {
        c.init.push(Op::Vis(0, 1, false));
    }
    c.ops_per_round = 2;
    c.alphabet = vec![
        Op::Nop,
        Op::Mut(0, TA),
        Op::Mut(1, TA),
        Op::Mut(2, TA),
        Op::Vis(0, 1, true),
        Op::Vis(0, 1, false),
        Op::Vis(0, 2, false),
    ];
    c.rounds = 2;
    c.env = Env {
        hold_acks: false,
        hold_updates: 1,
        mutations: MutMenu::Hold,
        leftover_choice: false,
        lossy: false,
    };
    c
}

/// A component insertion that the client's deserialization function refuses (an error path of
/// message application): whatever the client had read for that entity must not end up on
/// another entity. Only the per-entity confirmed-tick oracle applies; the refused entity and
/// the rest of that update message are lost by design.
pub fn refused_value(property: &'static str) -> ReplCell {
    let mut c = base("refused-value", property);
    c.cfg.with_f = true;
    c.init = vec![Op::Spawn(0, M_A), Op::Spawn(1, M_A), Op::Spawn(2, AB)];
    c.alphabet = vec![Op::Nop, Op::InsPoison(0), Op::InsPoison(1), Op::Ins(0, TB), Op::Mut(0, TA), Op::Mut(1, TA), Op::Mut(2, TB)];
    c.env = Env {
        hold_acks: false,
        hold_updates: 1,
        mutations: MutMenu::Hold,
        leftover_choice: false,
        lossy: false,
    };
    c
}

/// Two entities with the same components: removals, despawns and spawns on one of them in one
/// tick, then on the other in a later tick (per-tick scratch state of the server - pooled
/// removal lists, per-client counters - must not carry over from one tick or entity to the next).
pub fn pool_reuse(property: &'static str) -> ReplCell {
    let mut c = base("pool-reuse", property);
    c.init = vec![Op::Spawn(0, AB), Op::Spawn(1, AB)];
    c.alphabet = vec![
        Op::Nop,
        Op::Rm(0, TA),
        Op::Rm(0, TB),
        Op::Rm(1, TA),
        Op::Rm(1, TB),
        Op::Despawn(0),
        Op::Despawn(1),
        Op::Spawn(2, M_A),
        Op::Mut(1, TA),
    ];
    c.env = Env {
        hold_acks: false,
        hold_updates: 1,
        mutations: MutMenu::Hold,
        leftover_choice: false,
        lossy: false,
    };
    c
}

/// An existing mapped reference is re-pointed (mutated in place) at an entity spawned in the
/// same tick, while its holder also has a removal or an insertion in that tick.
pub fn reref(property: &'static str) -> ReplCell {
    let mut c = base("reref", property);
    c.cfg.with_r = true;
    c.init = vec![Op::Spawn(0, AB), Op::Spawn(1, M_A), Op::InsRef(0, 1)];
    c.ops_per_round = 3;
    // (the new entity gets a component set nobody had before, so that its archetype - and its
    // record in the message - comes after the holder's)
    c.alphabet = vec![Op::Nop, Op::Spawn(2, M_B), Op::MutRef(0, 2), Op::Rm(0, TB), Op::Mut(0, TA), Op::MutRef(0, 1)];
    c.rounds = 1;
    c.tick_choice = false;
    c.env = Env {
        hold_acks: false,
        hold_updates: 1,
        mutations: MutMenu::Hold,
        leftover_choice: false,
        lossy: false,
    };
    c
}

/// Two disjoint hierarchies (two relation graphs): an insertion plus a mutation on a member of
/// one of them in the tick in which members of the other are mutated.
pub fn two_graphs_insert(property: &'static str) -> ReplCell {
    let mut c = base("two-graphs-insert", property);
    c.cfg.with_child = true;
    c.cfg.sync_rel = true;
    c.init = vec![
        Op::Spawn(0, M_A),
        Op::Spawn(1, M_A),
        Op::Spawn(2, M_A),
        Op::Spawn(3, M_A),
        Op::SetParent(1, 0),
        Op::SetParent(3, 2),
    ];
    c.ops_per_round = 3;
    c.alphabet = vec![Op::Nop, Op::Ins(0, TB), Op::Mut(0, TA), Op::Mut(2, TA), Op::Mut(3, TA), Op::Ins(2, TB)];
    c.rounds = 1;
    c.tick_choice = false;
    c.env = Env {
        hold_acks: false,
        hold_updates: 1,
        mutations: MutMenu::Hold,
        leftover_choice: false,
        lossy: false,
    };
    c
}
