//! Stateless, deviation-bounded, exhaustive exploration of choice sequences over real code.
//!
//! A state is identified with the choice sequence that reaches it and is rebuilt by
//! deterministic re-execution (`Scenario::start` + `apply`*). Alternative 0 of every choice
//! point is the default answer; every other alternative carries a cost (0 for game-history
//! choices, >= 1 for environment deviations). `explore` visits every complete choice sequence
//! whose total cost is <= the bound exactly once.

use std::{
    any::Any,
    collections::{BTreeMap, BTreeSet, HashSet},
    hash::{Hash, Hasher},
    panic::{AssertUnwindSafe, catch_unwind},
    sync::{
        Mutex,
        atomic::{AtomicBool, AtomicU64, Ordering},
    },
    time::{Duration, Instant},
};

use serde::{Deserialize, Serialize};

#[derive(Clone, Debug)]
pub struct ChoicePoint {
    /// Short label of the point (`op`, `tick`, `acks`, `upd`, `mut`, ...).
    pub label: &'static str,
    /// Human readable name of each alternative; `alts.len()` is the number of alternatives.
    pub alts: Vec<String>,
    /// Deviation cost of each alternative; `costs[0] == 0`.
    pub costs: Vec<u32>,
}

impl ChoicePoint {
    pub fn history(label: &'static str, alts: Vec<String>) -> Self {
        let costs = vec![0; alts.len()];
        Self { label, alts, costs }
    }
    pub fn env(label: &'static str, alts: Vec<(String, u32)>) -> Self {
        let costs = alts.iter().map(|a| a.1).collect();
        let alts = alts.into_iter().map(|a| a.0).collect();
        Self { label, alts, costs }
    }
}

#[derive(Clone, Debug, Serialize, Deserialize)]
pub struct Violation {
    /// Property the failing oracle belongs to (`C01`..`C18`).
    pub property: String,
    /// Stable oracle identifier, e.g. `value-mismatch`, `panic`, `leak`.
    pub oracle: String,
    /// Human readable detail (expected / actual).
    pub detail: String,
    /// Features of the failure used for known-finding matching (component tag, entity slot, ...).
    pub features: BTreeSet<String>,
}

impl Violation {
    pub fn new(property: &str, oracle: &str, detail: impl Into<String>) -> Self {
        Self {
            property: property.into(),
            oracle: oracle.into(),
            detail: detail.into(),
            features: BTreeSet::new(),
        }
    }
    pub fn feat(mut self, f: impl Into<String>) -> Self {
        self.features.insert(f.into());
        self
    }
}

pub trait Scenario: Sync {
    type Exec;
    fn name(&self) -> String;
    /// Full configuration of the cell (goes into replay and evidence files).
    fn cell(&self) -> serde_json::Value;
    fn start(&self) -> Self::Exec;
    /// Next choice point, or `None` when the history is finished.
    fn next(&self, x: &mut Self::Exec) -> Option<ChoicePoint>;
    /// Applies one alternative: runs real code and per-step oracles.
    fn apply(&self, x: &mut Self::Exec, alt: usize) -> Result<(), Violation>;
    /// Closure and final oracles.
    fn finish(&self, x: &mut Self::Exec) -> Result<(), Violation>;
    /// Summary of an execution (taken after `finish` or after a violation).
    fn summary(&self, x: &mut Self::Exec) -> Summary;
}

#[derive(Clone, Debug, Default)]
pub struct Summary {
    /// Digest of the final observation (distinct outcomes).
    pub outcome: u64,
    /// Was the property's mechanism exercised?
    pub nontrivial: bool,
    /// Observable-state digests after every environment step.
    pub states: Vec<u64>,
    /// Environment steps applied to real code (frames run).
    pub transitions: u64,
    /// Digest of the complete observation trace (determinism gate).
    pub trace_digest: u64,
    /// Human-readable step listing.
    pub steps: Vec<String>,
}

pub struct RunOut {
    pub choices: Vec<u16>,
    pub points: Vec<ChoicePoint>,
    pub violation: Option<Violation>,
    pub summary: Summary,
    /// A prefix entry was out of range (only tolerated by the shrinker).
    pub diverged: bool,
}

/// Runs one execution: `prefix`, then the default alternative at every later point.
pub fn run<S: Scenario>(s: &S, prefix: &[u16], keep_steps: bool) -> RunOut {
    let mut x = s.start();
    let mut choices = Vec::with_capacity(prefix.len() + 8);
    let mut points = Vec::with_capacity(prefix.len() + 8);
    let mut violation = None;
    let mut diverged = false;
    loop {
        let Some(cp) = s.next(&mut x) else { break };
        let i = choices.len();
        let alt = if i < prefix.len() { prefix[i] as usize } else { 0 };
        if alt >= cp.alts.len() {
            diverged = true;
            break;
        }
        choices.push(alt as u16);
        points.push(cp);
        if let Err(v) = s.apply(&mut x, alt) {
            violation = Some(v);
            break;
        }
    }
    if violation.is_none() && !diverged {
        if choices.len() < prefix.len() {
            diverged = true;
        } else if let Err(v) = s.finish(&mut x) {
            violation = Some(v);
        }
    }
    let mut summary = s.summary(&mut x);
    if !keep_steps {
        summary.steps.clear();
    }
    RunOut {
        choices,
        points,
        violation,
        summary,
        diverged,
    }
}

/// Runs one execution choosing alternatives by their recorded labels (`<label>=<alternative>`),
/// which survives changes of an alphabet's order; `None` if a recorded label is no longer offered.
pub fn run_by_labels<S: Scenario>(s: &S, labels: &[String]) -> Option<RunOut> {
    let mut x = s.start();
    let mut choices = Vec::new();
    let mut points = Vec::new();
    let mut violation = None;
    let mut li = 0usize;
    loop {
        let Some(cp) = s.next(&mut x) else { break };
        // A label names the next choice point of its kind; choice points of other kinds that
        // come first take their default (so a trace may list the history choices only).
        let alt = if li < labels.len() {
            match labels[li].strip_prefix(&format!("{}=", cp.label)) {
                Some(want) => {
                    li += 1;
                    cp.alts.iter().position(|a| a == want)?
                }
                None => 0,
            }
        } else {
            0
        };
        choices.push(alt as u16);
        points.push(cp);
        if let Err(v) = s.apply(&mut x, alt) {
            violation = Some(v);
            break;
        }
    }
    if violation.is_none() {
        if li < labels.len() {
            return None;
        }
        if let Err(v) = s.finish(&mut x) {
            violation = Some(v);
        }
    }
    let summary = s.summary(&mut x);
    Some(RunOut { choices, points, violation, summary, diverged: false })
}

#[derive(Clone, Debug)]
pub struct Bounds {
    pub max_dev: u32,
    pub deadline: Instant,
    pub max_violations: usize,
    pub seed: u64,
}

#[derive(Clone, Debug, Serialize)]
pub struct FoundViolation {
    pub cell: String,
    pub choices: Vec<u16>,
    pub deviations: u32,
    pub violation: ViolationOut,
    pub steps: Vec<String>,
}

#[derive(Clone, Debug, Serialize)]
pub struct ViolationOut {
    pub property: String,
    pub oracle: String,
    pub detail: String,
    pub features: Vec<String>,
}

impl From<&Violation> for ViolationOut {
    fn from(v: &Violation) -> Self {
        Self {
            property: v.property.clone(),
            oracle: v.oracle.clone(),
            detail: v.detail.clone(),
            features: v.features.iter().cloned().collect(),
        }
    }
}

#[derive(Default)]
pub struct Report {
    pub cell: String,
    pub cell_cfg: serde_json::Value,
    pub executions: u64,
    pub transitions: u64,
    pub states: u64,
    pub outcomes: u64,
    pub nontrivial: u64,
    pub distinct_nontrivial: u64,
    pub completed_dev: Option<u32>,
    pub attempted_dev: u32,
    pub capped: bool,
    pub determinism_replays: u64,
    pub violations: Vec<FoundViolation>,
    pub violation_count: u64,
    pub samples: Vec<serde_json::Value>,
    pub wall_s: f64,
    pub max_choice_points: usize,
}

const SHARDS: usize = 64;
struct Ctx {
    max_dev: u32,
    deadline: Instant,
    stop: AtomicBool,
    capped: AtomicBool,
    executions: AtomicU64,
    transitions: AtomicU64,
    nontrivial: AtomicU64,
    violation_count: AtomicU64,
    det_replays: AtomicU64,
    max_points: AtomicU64,
    states: Vec<Mutex<HashSet<u64>>>,
    outcomes: Mutex<HashSet<u64>>,
    nontrivial_outcomes: Mutex<HashSet<u64>>,
    violations: Mutex<Vec<(Vec<u16>, u32, Violation)>>,
    samples: Mutex<BTreeMap<u64, Vec<u16>>>,
    max_violations: usize,
    seed: u64,
    machinery_error: Mutex<Option<String>>,
}

fn mix(a: u64, b: u64) -> u64 {
    let mut h = std::collections::hash_map::DefaultHasher::new();
    a.hash(&mut h);
    b.hash(&mut h);
    h.finish()
}

pub fn hash_of<T: Hash>(t: &T) -> u64 {
    let mut h = std::collections::hash_map::DefaultHasher::new();
    t.hash(&mut h);
    h.finish()
}

fn rec<'a, S: Scenario>(scope: &rayon::Scope<'a>, s: &'a S, prefix: Vec<u16>, ctx: &'a Ctx) {
    if ctx.stop.load(Ordering::Relaxed) {
        return;
    }
    if Instant::now() > ctx.deadline {
        ctx.capped.store(true, Ordering::Relaxed);
        ctx.stop.store(true, Ordering::Relaxed);
        return;
    }
    let out = match catch_unwind(AssertUnwindSafe(|| run(s, &prefix, false))) {
        Ok(o) => o,
        Err(e) => {
            let msg = panic_msg(&e);
            *ctx.machinery_error.lock().unwrap() =
                Some(format!("harness panic at prefix {prefix:?}: {msg}"));
            ctx.stop.store(true, Ordering::Relaxed);
            return;
        }
    };
    if out.diverged {
        *ctx.machinery_error.lock().unwrap() = Some(format!(
            "divergence while replaying prefix {prefix:?} (got {:?})",
            out.choices
        ));
        ctx.stop.store(true, Ordering::Relaxed);
        return;
    }
    ctx.executions.fetch_add(1, Ordering::Relaxed);
    ctx.transitions
        .fetch_add(out.summary.transitions, Ordering::Relaxed);
    ctx.max_points
        .fetch_max(out.choices.len() as u64, Ordering::Relaxed);
    for &d in &out.summary.states {
        ctx.states[(d as usize) % SHARDS].lock().unwrap().insert(d);
    }
    ctx.outcomes.lock().unwrap().insert(out.summary.outcome);
    if out.summary.nontrivial {
        ctx.nontrivial.fetch_add(1, Ordering::Relaxed);
        ctx.nontrivial_outcomes
            .lock()
            .unwrap()
            .insert(out.summary.outcome);
    }

    let mut total_cost = 0u32;
    for (i, cp) in out.points.iter().enumerate() {
        total_cost += cp.costs[out.choices[i] as usize];
    }

    // Determinism gate on a sample of executions, and sampling for the evidence file.
    let key = mix(hash_of(&out.choices), ctx.seed);
    if key % 997 == 0 {
        let again = run(s, &out.choices, false);
        ctx.det_replays.fetch_add(1, Ordering::Relaxed);
        if again.summary.trace_digest != out.summary.trace_digest
            || again.violation.is_some() != out.violation.is_some()
        {
            *ctx.machinery_error.lock().unwrap() = Some(format!(
                "nondeterministic harness: choices {:?} gave two different traces",
                out.choices
            ));
            ctx.stop.store(true, Ordering::Relaxed);
            return;
        }
    }
    if out.violation.is_none() && out.summary.nontrivial {
        let mut samples = ctx.samples.lock().unwrap();
        if samples.len() < 3 || samples.keys().next_back().is_some_and(|&k| key < k) {
            samples.insert(key, out.choices.clone());
            if samples.len() > 3 {
                let last = *samples.keys().next_back().unwrap();
                samples.remove(&last);
            }
        }
    }

    if let Some(v) = &out.violation {
        let n = ctx.violation_count.fetch_add(1, Ordering::Relaxed);
        if (n as usize) < ctx.max_violations {
            ctx.violations
                .lock()
                .unwrap()
                .push((out.choices.clone(), total_cost, v.clone()));
        }
    }

    // Children: every affordable alternative at every choice point at or after the prefix.
    let mut cost_before = 0u32;
    for i in 0..out.choices.len() {
        let cp = &out.points[i];
        if i >= prefix.len() {
            for alt in 1..cp.alts.len() {
                let c = cost_before + cp.costs[alt];
                if c > ctx.max_dev {
                    continue;
                }
                let mut p = Vec::with_capacity(i + 1);
                p.extend_from_slice(&out.choices[..i]);
                p.push(alt as u16);
                scope.spawn(move |sc| rec(sc, s, p, ctx));
            }
        }
        cost_before += cp.costs[out.choices[i] as usize];
    }
}

pub fn panic_msg(e: &Box<dyn Any + Send>) -> String {
    if let Some(s) = e.downcast_ref::<&str>() {
        s.to_string()
    } else if let Some(s) = e.downcast_ref::<String>() {
        s.clone()
    } else {
        "<non-string panic>".into()
    }
}

#[derive(Debug)]
pub struct MachineryError(pub String);

/// One complete pass with deviation bound `max_dev`.
fn pass<S: Scenario>(s: &S, b: &Bounds, max_dev: u32) -> Result<Ctx, MachineryError> {
    let ctx = Ctx {
        max_dev,
        deadline: b.deadline,
        stop: AtomicBool::new(false),
        capped: AtomicBool::new(false),
        executions: AtomicU64::new(0),
        transitions: AtomicU64::new(0),
        nontrivial: AtomicU64::new(0),
        violation_count: AtomicU64::new(0),
        det_replays: AtomicU64::new(0),
        max_points: AtomicU64::new(0),
        states: (0..SHARDS).map(|_| Mutex::new(HashSet::new())).collect(),
        outcomes: Mutex::new(HashSet::new()),
        nontrivial_outcomes: Mutex::new(HashSet::new()),
        violations: Mutex::new(Vec::new()),
        samples: Mutex::new(BTreeMap::new()),
        max_violations: b.max_violations,
        seed: b.seed,
        machinery_error: Mutex::new(None),
    };
    rayon::scope(|scope| rec(scope, s, Vec::new(), &ctx));
    if let Some(e) = ctx.machinery_error.lock().unwrap().take() {
        return Err(MachineryError(e));
    }
    Ok(ctx)
}

/// Iterative deviation bounding: complete passes with bound 0, 1, .. `b.max_dev`.
/// The report describes the last *completed* pass (plus violations of a capped pass, which are
/// genuine whatever the cap).
pub fn explore<S: Scenario>(s: &S, b: &Bounds) -> Result<Report, MachineryError> {
    let t0 = Instant::now();
    let mut report = Report {
        cell: s.name(),
        cell_cfg: s.cell(),
        attempted_dev: b.max_dev,
        ..Default::default()
    };
    // Lower bounds are subsumed by higher ones; run the low ones only while they are cheap
    // relative to the budget, so that a capped top layer still leaves a completed one.
    for d in 0..=b.max_dev {
        let ctx = pass(s, b, d)?;
        let capped = ctx.capped.load(Ordering::Relaxed);
        let vcount = ctx.violation_count.load(Ordering::Relaxed);
        let mut found: Vec<_> = std::mem::take(&mut *ctx.violations.lock().unwrap());
        found.sort_by(|a, b| (a.1, a.0.len(), &a.0).cmp(&(b.1, b.0.len(), &b.0)));
        if !capped || report.completed_dev.is_none() {
            report.executions = ctx.executions.load(Ordering::Relaxed);
            report.transitions = ctx.transitions.load(Ordering::Relaxed);
            report.states = ctx.states.iter().map(|m| m.lock().unwrap().len() as u64).sum();
            report.outcomes = ctx.outcomes.lock().unwrap().len() as u64;
            report.nontrivial = ctx.nontrivial.load(Ordering::Relaxed);
            report.distinct_nontrivial = ctx.nontrivial_outcomes.lock().unwrap().len() as u64;
            report.determinism_replays = ctx.det_replays.load(Ordering::Relaxed);
            report.max_choice_points = ctx.max_points.load(Ordering::Relaxed) as usize;
            let samples = std::mem::take(&mut *ctx.samples.lock().unwrap());
            report.samples = samples
                .values()
                .map(|c| {
                    let out = run(s, c, true);
                    serde_json::json!({"cell": s.name(), "choices": c, "steps": out.summary.steps})
                })
                .collect();
        }
        if !capped {
            report.completed_dev = Some(d);
        }
        report.capped = capped;
        if vcount > 0 {
            // Layers are cumulative: the violations of the highest layer run so far subsume
            // those of lower layers. Sorted by (deviations, length) the first one is minimal.
            report.violation_count = vcount;
            report.violations = found
                .into_iter()
                .map(|(choices, dev, v)| FoundViolation {
                    cell: s.name(),
                    steps: Vec::new(),
                    choices,
                    deviations: dev,
                    violation: (&v).into(),
                })
                .collect();
        }
        if capped {
            break;
        }
    }
    report.wall_s = t0.elapsed().as_secs_f64();
    Ok(report)
}

/// Greedy shrinker: repeatedly tries to replace a non-default choice by the default (from the
/// back) and to cut the tail, keeping a candidate when it still fails the same oracle of the
/// same property. Every candidate is a real re-execution.
pub fn shrink<S: Scenario>(s: &S, mut choices: Vec<u16>, property: &str, oracle: &str) -> Vec<u16> {
    let fails = |c: &[u16]| -> bool {
        let out = run(s, c, false);
        !out.diverged
            && out
                .violation
                .as_ref()
                .is_some_and(|v| v.property == property && v.oracle == oracle)
    };
    // strip trailing defaults
    while choices.last() == Some(&0) {
        choices.pop();
    }
    let mut changed = true;
    let mut budget = 400;
    while changed && budget > 0 {
        changed = false;
        for i in (0..choices.len()).rev() {
            if choices[i] == 0 {
                continue;
            }
            budget -= 1;
            if budget == 0 {
                break;
            }
            let mut cand = choices.clone();
            cand[i] = 0;
            while cand.last() == Some(&0) {
                cand.pop();
            }
            if fails(&cand) {
                choices = cand;
                changed = true;
                break;
            }
        }
    }
    choices
}

/// Replays a choice sequence three times and checks that the traces agree.
pub fn confirm_deterministic<S: Scenario>(s: &S, choices: &[u16]) -> Result<RunOut, MachineryError> {
    let a = run(s, choices, true);
    let b = run(s, choices, false);
    let c = run(s, choices, false);
    if a.summary.trace_digest != b.summary.trace_digest
        || a.summary.trace_digest != c.summary.trace_digest
        || a.violation.is_some() != b.violation.is_some()
    {
        return Err(MachineryError(format!(
            "nondeterministic harness: replay of {choices:?} diverged"
        )));
    }
    Ok(a)
}

/// Type-erased cell, so that property modules can return heterogeneous lists.
pub trait DynCell: Sync {
    fn cell_name(&self) -> String;
    fn cell_cfg(&self) -> serde_json::Value;
    fn explore_dyn(&self, b: &Bounds) -> Result<Report, MachineryError>;
    fn replay_dyn(&self, choices: &[u16]) -> Result<RunOut, MachineryError>;
    fn shrink_dyn(&self, choices: Vec<u16>, property: &str, oracle: &str) -> Vec<u16>;
    fn replay_labels_dyn(&self, labels: &[String]) -> Option<RunOut>;
}

impl<S: Scenario> DynCell for S {
    fn cell_name(&self) -> String {
        self.name()
    }
    fn cell_cfg(&self) -> serde_json::Value {
        self.cell()
    }
    fn explore_dyn(&self, b: &Bounds) -> Result<Report, MachineryError> {
        explore(self, b)
    }
    fn replay_dyn(&self, choices: &[u16]) -> Result<RunOut, MachineryError> {
        confirm_deterministic(self, choices)
    }
    fn shrink_dyn(&self, choices: Vec<u16>, property: &str, oracle: &str) -> Vec<u16> {
        shrink(self, choices, property, oracle)
    }
    fn replay_labels_dyn(&self, labels: &[String]) -> Option<RunOut> {
        run_by_labels(self, labels)
    }
}

pub fn deadline_in(secs: f64) -> Instant {
    Instant::now() + Duration::from_secs_f64(secs)
}
