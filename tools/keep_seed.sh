#!/bin/bash
# usage: tools/keep_seed.sh <src-dir> <seed-id> "<property>" "<verify-json>"
# Copies a verified seed into /verif/seeded/<seed-id>/ and runs every quick check against it.
set -u
SRC="$1"; ID="$2"; PROP="$3"; VER="$4"
DST=/verif/seeded/$ID
mkdir -p "$DST"
cp "$SRC/patch.diff" "$DST/patch.diff"
cp "$SRC"/seed_demo_*.rs "$DST/" 2>/dev/null
cp "$SRC/notes.md" "$DST/notes.md" 2>/dev/null
ALL="C01 C02 C03 C04 C05 C06 C07 C08 C09 C10 C11 C12 C13 C14 C15 C16 C17 C18"
/verif/tools/mut_env.sh run "$DST/patch.diff" $ALL > "$DST/checks.txt" 2>&1
CAUGHT=$(grep "exit=1" "$DST/checks.txt" | awk '{print $1}' | tr '\n' ' ')
python3 - "$DST" "$ID" "$PROP" "$VER" "$CAUGHT" <<'PY'
import json,sys,re
dst,sid,prop,ver,caught=sys.argv[1:6]
notes=open(dst+'/notes.md').read() if __import__('os').path.exists(dst+'/notes.md') else ''
meta={"seed":sid,"breaks_property":prop,"origin":"written by an independent sub-agent that saw only the property text and a scratch worktree",
      "needs_to_manifest":"see notes.md (author's description)","verified_by_me":json.loads(ver),
      "commands":["tools/verify_seed.sh <dir> (scratch worktree /tmp/vseed-wt: suite with change, demo with / without change)","tools/mut_env.sh run patch.diff C01..C18 (quick tiers of the committed machinery against a scratch worktree of /repo with the patch applied; confirmed against /repo itself with tools/run_mutant.sh for the checks listed in RESULTS.md)"],
      "caught_by_quick_checks":caught.split(),"checks_output":"checks.txt"}
json.dump(meta,open(dst+'/meta.json','w'),indent=1)
print(sid,"caught by:",caught)
PY
