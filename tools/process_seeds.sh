#!/bin/bash
# usage: tools/process_seeds.sh C02 C03 ...   verifies and runs every seed of the given agents' output dirs
for P in "$@"; do
  for n in 1 2 3; do
    D=/tmp/seed-out/$P/$n
    [ -f "$D/patch.diff" ] || continue
    V=$(/verif/tools/verify_seed.sh "$D" 2>&1 | tail -1)
    echo "$P-$n verify: $V"
    if echo "$V" | grep -q '226 passed' && echo "$V" | grep -q 'demo_with_change.*failed' && echo "$V" | grep -q '"demo_without_change":"[^"]*passed, 0 skipped'; then
      if echo "$V" | grep -q '"demo_without_change":"[^"]*failed'; then echo "  -> rejected (demo fails without change)"; continue; fi
      /verif/tools/keep_seed.sh "$D" "$P-$n" "$P" "$V"
    else
      echo "  -> rejected"
    fi
  done
done
