#!/bin/bash
# usage: tools/process_seeds.sh C02 C03 ...   verifies every seed of the given agents' output dirs and
# copies the confirmed ones into /verif/seeded/<id>/ (checks are run separately by tools/run_matrix.sh)
for P in "$@"; do
  for n in ${SEED_DIRS:-1 2 3}; do
    D=/tmp/seed-out/$P/$n
    [ -f "$D/patch.diff" ] || continue
    V=$(/verif/tools/verify_seed.sh "$D" 2>&1 | tail -1)
    echo "$P-$n verify: $V"
    if echo "$V" | grep -q '226 passed' && echo "$V" | grep -q '"demo_with_change":"[^"]*[1-9][0-9]* failed' && echo "$V" | grep -q '"demo_without_change":"[^"]*passed, 0 skipped'; then
      DST=/verif/seeded/$P-$n; mkdir -p $DST
      cp "$D/patch.diff" "$D"/seed*_demo_*.rs "$D/notes.md" $DST/ 2>/dev/null
      echo "$V" > $DST/verify.json
      echo "  -> kept"
    else
      echo "  -> rejected"
    fi
  done
done
