#!/bin/bash
# Reverts each repaired defect in turn (reverse-applies its fix) and runs the checks expected to notice.
cd /verif
declare -A T
T[cdb87d5]="C01 C03"
T[e466312]="C01 C03"
T[44e1881]="C01 C02"
T[5fb0cfb]="C01 C03 C08"
T[2960d6a]="C01 C03 C08"
T[cdc0b47]="C01 C03 C08"
T[eb48ccc]="C01 C03"
T[e20ef42]="C13 C07 C09"
T[2dc1093]="C13"
T[7d046df]="C11"
T[de12476]="C12"
T[64e75a4]="C12"
T[f90484b]="C15 C06"
T[cf078e8]="C06"
T[04ccb58]="C06"
T[24826b0]="C18"
T[43b4aa1]="C17"
T[e75b232]="C09"
T[cfc61f8]="C07"
for p in mutants/revert-*.patch; do
  h=$(basename $p | cut -d- -f2)
  echo "== $(basename $p)"
  if [ -n "${SCRATCH:-}" ]; then tools/mut_env.sh run /verif/$p -R ${T[$h]}; else tools/run_mutant.sh /verif/$p -R ${T[$h]}; fi
done
