#!/bin/bash
# Scratch copy of the machinery + repository for running seeded changes without disturbing
# /repo or /verif while they are being edited:  /tmp/mut/{repo,mc,target,out}
# usage: tools/mut_env.sh sync          (re)create / refresh the copies from the committed state on disk
#        tools/mut_env.sh run <patch> [-R] <ID>...   apply patch to /tmp/mut/repo, run quick checks, undo
set -u
case "$1" in
sync)
  mkdir -p /tmp/mut/out
  if [ ! -d /tmp/mut/repo ]; then git -C /repo worktree add -q --detach /tmp/mut/repo HEAD; fi
  git -C /tmp/mut/repo checkout -q -- . ; git -C /tmp/mut/repo checkout -q --detach "$(git -C /repo rev-parse HEAD)"
  rsync -a --delete --exclude target /verif/mc/ /tmp/mut/mc/
  sed -i 's|path = "/repo/bevy_replicon_example_backend"|path = "/tmp/mut/repo/bevy_replicon_example_backend"|; s|path = "/repo"|path = "/tmp/mut/repo"|' /tmp/mut/mc/Cargo.toml
  sed -i 's|target-dir = "/verif/.target"|target-dir = "/tmp/mut/target"|' /tmp/mut/mc/.cargo/config.toml
  cp /verif/known_findings.json /tmp/mut/out/
  (cd /tmp/mut/mc && cargo build --offline -q 2>&1 | grep -E "^error" -A5)
  ;;
run)
  shift; PATCH="$1"; shift; REV=""
  if [ "${1:-}" = "-R" ]; then REV="-R"; shift; fi
  cd /tmp/mut/repo || exit 2
  git checkout -q -- .
  if ! git apply $REV --check "$PATCH" 2>/dev/null; then echo "patch does not apply: $PATCH"; exit 2; fi
  git apply $REV "$PATCH"
  (cd /tmp/mut/mc && cargo build --offline -q 2>&1 | grep -E "^error" -A5)
  for ID in "$@"; do
    OUT=$(cd /tmp/mut/mc && VERIF_ROOT=/tmp/mut/out /tmp/mut/target/debug/rmc check "$ID" --tier quick 2>&1); RC=$?
    V=$(echo "$OUT" | grep -c '^VIOLATION')
    FIRST=$(echo "$OUT" | grep '^VIOLATION' | head -1 | sed 's/.*replay=//')
    OR=""; [ -n "$FIRST" ] && [ -f "$FIRST" ] && OR=$(jq -r '.violation.oracle' "$FIRST" 2>/dev/null)
    echo "  $ID exit=$RC violations=$V oracle=$OR"
  done
  git checkout -q -- .
  ;;
esac
