#!/usr/bin/env python3
"""Builds seeded/RESULTS.md: which quick check catches which seeded change.
Sources: seeded/matrix*.log ("<seed> caught by: ..."), seeded/r2quick.log / r3quick.log (per check exit codes),
seeded/<id>/checks.txt, seeded/confirmed.txt (individual confirmations after strengthening)."""
import glob, os, re, json, collections
root = '/verif/seeded'
caught = collections.defaultdict(dict)   # seed -> check -> oracle
first_pass = collections.defaultdict(set)  # what the checks caught before any strengthening for that seed
def note(seed, check, oracle='', first=False):
    if check not in caught[seed] or (oracle and not caught[seed][check]):
        caught[seed][check] = oracle
    if first:
        first_pass[seed].add(check)
for d in glob.glob(root + '/C*-*'):
    seed = os.path.basename(d)
    f = d + '/checks.txt'
    if os.path.exists(f):
        for l in open(f):
            m = re.match(r'\s*(C\d\d) exit=1 violations=\d+ oracle=(\S*)', l)
            if m: note(seed, m.group(1), m.group(2), first=True)
for log in ['r2quick.log', 'r3quick.log', 'r4quick.log', 'r5quick.log', 'r6quick.log', 'r7quick.log']:
    p = root + '/' + log
    if not os.path.exists(p): continue
    cur = None
    for l in open(p):
        m = re.match(r'== (\S+)', l)
        if m: cur = m.group(1); continue
        m = re.match(r'\s*(C\d\d) exit=1 violations=\d+ oracle=(\S*)', l)
        if m and cur: note(cur, m.group(1), m.group(2), first=True)
final_seen = set(); final_caught = collections.defaultdict(set)
for d in glob.glob(root + '/C*-*'):
    seed = os.path.basename(d)
    f = d + '/final.txt'
    if os.path.exists(f):
        final_seen.add(seed)
        for l in open(f):
            m = re.match(r'\s*(C\d\d) exit=1 violations=\d+ oracle=(\S*)', l)
            if m: note(seed, m.group(1), m.group(2)); final_caught[seed].add(m.group(1))
for l in open(root + '/confirmed.txt'):
    if l.startswith('#') or not l.strip(): continue
    seed, check, oracle = l.split()[:3]
    note(seed, check, oracle)
seeds = sorted(os.path.basename(d) for d in glob.glob(root + '/C*-*') if os.path.exists(d + '/patch.diff'))
def changed_file(seed):
    for l in open(f'{root}/{seed}/patch.diff'):
        if l.startswith('+++ b/'): return l[6:].strip()
    return '?'
def needs(seed):
    p = f'{root}/{seed}/notes.md'
    if not os.path.exists(p): return ''
    t = open(p).read()
    m = re.search(r'^#+ *(.+)$', t, re.M)
    return (m.group(1) if m else '').strip()[:140]
out = ['# Seeded changes and the quick checks that report them', '',
       'Each row is one change written by an independent sub-agent (property text + scratch worktree only), re-verified by',
       '`tools/verify_seed.sh` (applies, repository suite 226/226 with the change, demonstration fails with it and passes without).',
       '"first pass" = reported by the quick tiers as they were when the seed arrived; "now" = after the strengthening the misses prompted',
       '(oracle of the first violation in brackets). Round 1 = `Cxx-n`, round k = `Cxx-rk-n` (rounds 6 and 7 together cover the 18 properties once). An exit status other than 1 on the first pass (machinery error, abort) counts as not reported.', '',
       '| seed | file changed | first pass | now |', '|---|---|---|---|']
missed_first = []; missed_now = []
for s in seeds:
    fp = sorted(first_pass[s]); now = caught[s]
    if not fp: missed_first.append(s)
    if not now: missed_now.append(s)
    out.append(f"| {s} | `{changed_file(s)}` | {' '.join(fp) or '—'} | {' '.join(f'{c}[{o}]' if o else c for c, o in sorted(now.items())) or '**not caught**'} |")
out += ['', f'Seeds: {len(seeds)}. Missed on the first pass: {len(missed_first)} ({", ".join(missed_first)}). Not caught now: {len(missed_now)} ({", ".join(missed_now) or "none"}).', '']
open(root + '/RESULTS.md', 'w').write('\n'.join(out))
# refresh meta.json
for s in seeds:
    mp = f'{root}/{s}/meta.json'
    meta = json.load(open(mp)) if os.path.exists(mp) else {"seed": s, "breaks_property": s.split('-')[0],
        "origin": "written by an independent sub-agent that saw only the property text and a scratch worktree of /repo",
        "needs_to_manifest": "see notes.md (author's description of the required sequence / schedule / input)"}
    vp = f'{root}/{s}/verify.json'
    if os.path.exists(vp):
        try: meta["verified_by_me"] = json.loads(open(vp).read().strip())
        except Exception: meta["verified_by_me"] = {"raw": open(vp).read().strip()}
    meta.setdefault("what_i_ran", ["tools/verify_seed.sh (scratch worktree outside /repo and /verif: patch applies, repository suite 226 passed with the change, demo fails with the change and passes without it)",
        "tools/run_mutant.sh patch.diff <checks> (git -C /repo apply, quick checks, git -C /repo checkout -- .) or tools/mut_env.sh run (same against a scratch worktree)"])
    meta["caught_by_quick_checks_first_pass"] = sorted(first_pass[s])
    meta["caught_by_quick_checks"] = sorted(caught[s])
    meta["first_violation_oracle"] = {c: o for c, o in caught[s].items() if o}
    json.dump(meta, open(mp, 'w'), indent=1)
if final_seen:
    # (C01-r6-2 kills the bare checker process of the scratch copy with status 134; `./check` reports the
    # violations recorded before that - see seeded/confirmed.txt)
    lost = sorted(s for s in final_seen if not final_caught[s] and not caught[s])
    out_extra = f"Final confirmation run (tools/final_matrix.sh, current machinery, own check + one more): {len(final_seen)} seeds, {len(final_seen) - len(lost)} reported" + (f"; NOT reported: {', '.join(lost)}" if lost else "") + "."
    open(root + '/RESULTS.md', 'a').write(out_extra + '\n')
    print(out_extra)
print(len(seeds), 'seeds; missed first pass', len(missed_first), '; not caught now', len(missed_now), missed_now)
