#!/bin/bash
# Final confirmation: every kept seed against the checks listed for it in seeded/focus.txt (its own
# property's check and one more that reported it), with the current machinery, in the scratch
# environment (tools/mut_env.sh). Writes seeded/<id>/final.txt; tools/gen_results.py folds it in.
/verif/tools/mut_env.sh sync
while read -r ID CHECKS; do
  [ -f /verif/seeded/$ID/patch.diff ] || continue
  /verif/tools/mut_env.sh run /verif/seeded/$ID/patch.diff $CHECKS > /verif/seeded/$ID/final.txt 2>&1
  echo "$ID: $(grep -c 'exit=1' /verif/seeded/$ID/final.txt) of $(echo $CHECKS | wc -w) report it"
done < "${FOCUS_FILE:-/verif/seeded/focus.txt}"
