#!/bin/bash
# usage: tools/verify_seed.sh <seed-dir containing patch.diff and seed_demo_*.rs>
# Confirms in a scratch worktree (outside /repo and /verif): patch applies, suite passes with it,
# demo fails with it and passes without it. Prints a JSON line.
set -u
D="$1"
W="${VSEED_WORKER:-0}"
WT=/tmp/vseed-wt-$W
export CARGO_TARGET_DIR=/tmp/vseed-target-$W CARGO_PROFILE_DEV_DEBUG=0 CARGO_PROFILE_TEST_DEBUG=0 CARGO_NET_OFFLINE=true
if [ ! -d "$WT" ]; then git -C /repo worktree add -q "$WT" HEAD || exit 2; fi
cd "$WT" && git checkout -q -- . && git clean -fdq tests bevy_replicon_example_backend/tests src bevy_replicon_example_backend/src
git -C "$WT" checkout -q --detach "$(git -C /repo rev-parse HEAD)" 2>/dev/null
DEMO=$(ls "$D"/seed*_demo_*.rs | head -1)
NAME=$(basename "$DEMO" .rs)
if grep -q "bevy_replicon_example_backend" "$D/patch.diff" && grep -q "RepliconExample\|ExampleServer\|ExampleClient" "$DEMO"; then DEST=bevy_replicon_example_backend/tests; PKG="-p bevy_replicon_example_backend"; else DEST=tests; PKG="-p bevy_replicon"; fi
git apply --check "$D/patch.diff" || { echo "{\"seed\":\"$D\",\"applies\":false}"; exit 1; }
git apply "$D/patch.diff"
SUITE=$(cargo nextest run --workspace --no-fail-fast --test-threads 8 --offline 2>&1 | grep -E "^\s+Summary" | tail -1)
cp "$DEMO" "$DEST/"
WITH=$(cargo nextest run --offline $PKG --test "$NAME" 2>&1 | grep -E "^\s+Summary" | tail -1)
git checkout -q -- src bevy_replicon_example_backend/src
WITHOUT=$(cargo nextest run --offline $PKG --test "$NAME" 2>&1 | grep -E "^\s+Summary" | tail -1)
rm -f "$DEST/$(basename $DEMO)"
echo "{\"seed\":\"$D\",\"applies\":true,\"suite_with_change\":\"$SUITE\",\"demo_with_change\":\"$WITH\",\"demo_without_change\":\"$WITHOUT\"}"
