#!/bin/bash
# runs every thorough check once and prints exit code, wall time and the verdict line
cd /verif
for i in $(seq -w 1 18); do
  s=$(date +%s); OUT=$(./check C$i thorough ${1:+--budget $1} 2>&1); rc=$?; e=$(date +%s)
  echo "C$i rc=$rc $((e-s))s $(echo "$OUT" | grep -c KNOWN-FINDING) known | $(echo "$OUT" | grep -E '^(OK|VIOLATION)' | head -2 | tr '\n' ' ' | cut -c1-160)"
  echo "$OUT" | grep -E "CAPPED|vacuous|note:" | head -5
done
