#!/bin/bash
# usage: tools/run_mutant.sh <patch-file> [-R] <ID> [<ID> ...]
# Applies a patch to /repo (reverse with -R), runs the quick tier of the given checks,
# prints one line per check, and always restores /repo afterwards.
set -u
PATCH="$1"; shift
REV=""
if [ "${1:-}" = "-R" ]; then REV="-R"; shift; fi
cd /repo || exit 2
if [ -n "$(git status --porcelain --untracked-files=no)" ]; then echo "/repo is dirty, refusing"; exit 2; fi
if ! git apply $REV --check "$PATCH" 2>/dev/null; then echo "patch does not apply: $PATCH"; exit 2; fi
git apply $REV "$PATCH"
trap 'cd /repo && git checkout -q -- . && git clean -fdq -- src bevy_replicon_example_backend/src tests bevy_replicon_example_backend/tests >/dev/null 2>&1' EXIT
for ID in "$@"; do
  OUT=$(cd /verif && ./check "$ID" quick 2>&1); RC=$?
  V=$(echo "$OUT" | grep -c '^VIOLATION')
  FIRST=$(echo "$OUT" | grep '^VIOLATION' | head -1 | sed 's/.*replay=//')
  OR=""
  if [ -n "$FIRST" ] && [ -f "$FIRST" ]; then OR=$(jq -r '.violation.oracle' "$FIRST" 2>/dev/null); fi
  echo "  $ID exit=$RC violations=$V oracle=$OR"
  if [ -n "${SAVE_REGRESS:-}" ] && [ -n "$FIRST" ] && [ -f "$FIRST" ] && ! echo "$FIRST" | grep -q "/regress/"; then
    mkdir -p "/verif/regress/$ID"; cp "$FIRST" "/verif/regress/$ID/$(basename "$PATCH" .patch | cut -c1-60).json"
  fi
done
