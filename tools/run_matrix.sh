#!/bin/bash
# usage: tools/run_matrix.sh [scratch|repo] [seed-id ...]
# Runs every quick check against every kept seed (default: all) and writes seeded/<id>/checks.txt + meta.json.
MODE="${1:-scratch}"; shift
IDS="$@"; [ -z "$IDS" ] && IDS=$(ls -d /verif/seeded/C*-* | xargs -n1 basename)
ALL="C01 C02 C03 C04 C05 C06 C07 C08 C09 C10 C11 C12 C13 C14 C15 C16 C17 C18"
[ "$MODE" = scratch ] && /verif/tools/mut_env.sh sync
for ID in $IDS; do
  DST=/verif/seeded/$ID
  # FOCUS=1: only the checks listed for the seed in seeded/focus.txt (its own property + those that caught it before)
  if [ -n "${FOCUS:-}" ]; then ALL=$(grep "^$ID " /verif/seeded/focus.txt | cut -d' ' -f2-); [ -z "$ALL" ] && ALL=${ID%%-*}; fi
  if [ "$MODE" = repo ]; then /verif/tools/run_mutant.sh "$DST/patch.diff" $ALL > "$DST/checks.txt" 2>&1
  else /verif/tools/mut_env.sh run "$DST/patch.diff" $ALL > "$DST/checks.txt" 2>&1; fi
  CAUGHT=$(grep "exit=1" "$DST/checks.txt" | awk '{print $1}' | tr '\n' ' ')
  python3 - "$DST" "$ID" "$CAUGHT" "$MODE" <<'PY'
import json,sys,os
dst,sid,caught,mode=sys.argv[1:5]
ver=open(dst+'/verify.json').read().strip() if os.path.exists(dst+'/verify.json') else '{}'
try: verj=json.loads(ver)
except Exception: verj={"raw":ver}
meta={"seed":sid,"breaks_property":sid.split('-')[0],
 "origin":"written by an independent sub-agent that saw only the property text and a scratch worktree of /repo",
 "needs_to_manifest":"see notes.md (author's description of the required sequence / schedule / input)",
 "verified_by_me":verj,
 "what_i_ran":["tools/verify_seed.sh (scratch worktree outside /repo and /verif: patch applies, repository suite 226 passed with the change, demo fails with the change and passes without it)",
               ("tools/run_mutant.sh patch.diff <checks>: git -C /repo apply, the quick checks listed in checks.txt, git -C /repo checkout -- ." if mode=="repo" else "tools/mut_env.sh run patch.diff <checks>: the quick checks listed in checks.txt, run by the machinery in /verif against a scratch worktree of /repo with the patch applied")],
 "caught_by_quick_checks":caught.split()}
json.dump(meta,open(dst+'/meta.json','w'),indent=1)
print(sid,"caught by:",caught)
PY
done
