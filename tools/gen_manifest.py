#!/usr/bin/env python3
"""Generates /verif/MANIFEST.json from the table below (kept in one place so that the
manifest stays valid and in step with the checks that exist)."""
import json, subprocess, sys

TRUST = ("Trusted: the harness (network normal form, snapshots, oracles), Bevy, rustc. Assumes the "
         "single-threaded executor of this build and the channel contracts of channels.rs. Bounds per cell "
         "are in the evidence file; nothing outside them is claimed.")

# id -> (claimed?, technique, text, design_ref, note)
CHECKS = {
 "C01": ("stateless deviation-bounded exhaustive exploration of real server/client Apps (histories x network schedules), closure oracle",
         "Every history over the cell alphabets and every network schedule in normal form with <= d deviations is executed on real Apps to closure; the client views must equal the server state. A coverage statement within the stated bounds, not a sample.", "§5 C01"),
 "C02": ("stateless deviation-bounded exhaustive exploration of real Apps, per-frame oracle against per-tick server snapshots",
         "After every client frame of every explored execution each entity's values must equal the server snapshot at the entity's confirmed tick; all hold/reorder/drop patterns of mutate messages within the bound are enumerated.", "§5 C02"),
 "C03": ("stateless deviation-bounded exhaustive exploration of real Apps, per-frame structural oracle",
         "After every client frame the client's structure and entity map must equal the per-client structural snapshot at its update tick, for every structural history and reliable-channel delay pattern within the bound.", "§5 C03"),
 "C04": ("stateless deviation-bounded exhaustive exploration of real Apps with an event vocabulary; delivery-time oracle",
         "Every history of structural operations and event emissions and every relative delay between the update channel and the event channels within the bound is executed; at each delivery the client's update tick and the resolved references are checked; the timer-driven cell is re-explored under both resolutions of every pair of library systems whose order the declared constraints leave open.", "§5 C04"),
 "C05": ("stateless deviation-bounded exhaustive exploration of real Apps (1-3 clients) against a recipient-list reference model",
         "All emission / connect / disconnect sequences and per-channel hold, reverse and drop schedules within the bound are executed; deliveries are compared with the intended-recipient sets fixed at emission, per-type order, sender identity and a wire scan for re-sends.", "§5 C05"),
 "C07": ("stateless deviation-bounded exhaustive exploration of real Apps under the three authorization methods; per-frame wire oracle",
         "For every history and every delay of the handshake within the bound, every message sent to a connected but unauthorized client must be on an independent channel; convergence after authorization; mismatch handling.", "§5 C07"),
 "C08": ("stateless deviation-bounded exhaustive exploration of real Apps under both visibility policies; wire scan, visibility-query oracle and twin-execution differential",
         "All sequences of visibility calls, lifecycle operations and ticks within the bound are executed; every message is scanned for payloads of entities hidden from its recipient, is_visible is compared with the last call, and a second client is compared with a twin execution.", "§5 C08"),
 "C09": ("stateless deviation-bounded exhaustive exploration of real Apps with disconnect / server-stop injection at every round (crash-point enumeration)",
         "A client disconnect or server stop is injected at every round of every history within the bound, with traffic held in flight or buffered by earlier deviations; after reconnect the per-frame confirmed-tick oracle, the session-aware recipient oracle and convergence must hold and no panic may occur; the restart cell also under both resolutions of every open system-order pair. Plus reconnects of real Apps over loopback TCP with messages waiting in the client's link conditioner.", "§5 C09"),
 "C13": ("exhaustive enumeration of operation sequences on one real App (all configurations, status-change points, emission points, event-rotation regimes), plus all emit/close histories of two real Apps with the example backend over loopback TCP",
         "Every sequence of <= r operations (server start/stop, client status changes, emissions in every mode) is executed on a real App in the full and the dedicated build; per event the number of local observations and wire sends must match the configuration, never twice. With the real transport: every history of <= 3/4 frames over emit / close / both on either side, exactly one path per event.", "§5 C13"),
 "C16": ("stateless deviation-bounded exhaustive exploration of real Apps with pre-spawn mapping operations; per-frame adoption oracle",
         "All timings of the mapping relative to spawn, marker and visibility, with extra traffic, client-side despawn and a second client, under reliable-channel delays within the bound; one client entity per server entity and adoption are checked after every client frame.", "§5 C16"),
 "C06": ("exhaustive enumeration of client-to-server byte strings (all <= 2/3-byte strings + varint-boundary grammar + structure-aware mutations of genuine messages) against a real server App, in rlimit-ed worker subprocesses with an allocation recorder",
         "Every input of the enumerated sets is injected on every client channel from unauthorized, authorized and disconnecting senders; the server must neither panic nor abort nor allocate out of proportion, a genuine event / acknowledgement of a well-behaved client queued behind it in the same frame must still take effect, and that client must keep converging; plus total silence of all clients across a full wrap of the 16-bit mutate-message index.", "§5 C06"),
 "C10": ("exhaustive enumeration of payload-size tuples and relationship-graph histories on real Apps; every ordered subset of a tick's mutate messages delivered (split-delivery stage)",
         "For every size tuple around the packing boundaries and every relationship history within the bound, all subsets / orders of one tick's mutate messages are delivered in separate re-executions; per-entity and per-group all-or-nothing and the size clauses are checked.", "§5 C10"),
 "C11": ("stateless deviation-bounded exhaustive exploration of real Apps with a wire model of mutate messages and acknowledgements; per-tick wire-scan oracle, quiescence check",
         "For every mutation history and every hold / drop / reorder pattern of mutate messages and acks within the bound (plus junk ack indices, ack timeouts shorter and longer than the bounded delay, a paused virtual clock), a value is in a tick's traffic iff it was edited after the newest acknowledged message containing the entity; at rest the server is silent and resumes.", "§5 C11"),
 "C12": ("explicit-state BFS with complete state keys over the real ConfirmHistory / ServerMutateTicks / RepliconTick against a set model, plus split-delivery exploration of real Apps with tracking",
         "All confirmation sequences within the bound (distances around the 64-tick window, bases at the wrap point and sign boundary) with all queries per state; end to end every ordered subset of a tick's mutate messages: the notification fires exactly once, only when complete.", "§5 C12"),
 "C14": ("exhaustive enumeration of registration sequences: hash per real App, all-pairs comparison, cross-process comparison, real handshakes for all single-edit pairs",
         "All well-formed registration sequences up to the bound are built as real Apps; equal sequences must hash equally (also in a second process), all pairs of different sequences differently; real handshakes for every single-edit pair.", "§5 C14"),
 "C15": ("exhaustive enumeration of inputs to the real codec: boundary-class product round trips, all <= 2/3-byte strings, varint-boundary grammar",
         "Round trip over the full product of index and generation boundary classes embedded in longer messages; decoding of every enumerated byte string yields Ok(valid) or Err, never a panic.", "§5 C15"),
 "C17": ("exhaustive enumeration of insert/pop histories and bursts on the real LinkConditioner (through the cfg hook) against per-channel FIFOs; end-to-end bursts over loopback TCP with real Apps",
         "Every history of the small alphabet and every burst size 1..48 on the real conditioner; plus real Apps over loopback for all listed counts, sizes, channels and directions (arrival timing can only make a run inconclusive, never failing).", "§5 C17"),
 "C18": ("exhaustive enumeration of worlds x rule sets x target scenes on real Apps against the harness's own rule matching",
         "Every world of 1-2 entities over all component subsets, every subset of six rules including overlapping ones, empty and pre-filled targets; exact expected export, serialize and read back.", "§5 C18"),
}
ALL = ["C%02d" % i for i in range(1, 19)]
NOT_YET = "check not built yet in this session (work in progress; see DESIGN.md §5)"

def main():
    checks = []
    for pid in ALL:
        if pid not in CHECKS:
            continue
        tech, text, ref = CHECKS[pid]
        checks.append({
            "property_id": pid,
            "quick_cmd": f"./check {pid} quick",
            "thorough_cmd": f"./check {pid} thorough",
            "evidence_file": f"/verif/evidence/{pid}.json",
            "replay_cmd_template": "./check replay {path}",
            "engine": "rmc",
            "level_claimed": {"category": "model_checking", "text": text, "design_ref": "DESIGN.md " + ref},
            "level_note": TRUST,
            "technique": tech,
        })
    hooks = json.load(open("/verif/tools/hooks.json"))
    m = {
        "version": 1,
        "setup_cmd": "cd /verif/mc && CARGO_NET_OFFLINE=true cargo build --offline",
        "hooks": hooks,
        "engines": [{"name": "rmc", "path": "/verif/mc", "serves_properties": [c["property_id"] for c in checks],
                     "kind_free_text": "Rust binary: stateless deviation-bounded explorer + explicit-state BFS over real bevy_replicon code (path dependency on /repo)"}],
        "checks": checks,
        "not_applicable": [{"property_id": p, "reason": NOT_YET} for p in ALL if p not in CHECKS],
        "notes": "All checks: ./check <ID> <quick|thorough>. Exit 0 held / 1 VIOLATION / 2 machinery error. Known findings: /verif/known_findings.json.",
    }
    json.dump(m, open("/verif/MANIFEST.json", "w"), indent=1)
    import jsonschema
    jsonschema.validate(m, json.load(open("/root/.vp/MANIFEST.schema.json")))
    print("MANIFEST.json written and valid:", len(checks), "checks")

main()
